(* Decision trees of slice operations: the form in which tools/trace_tlb.py reports what the TL-B
   `deserialize` classmethods do (which loader, which width, on which sub-slice, in which order, branching on
   which loaded bits, and which loaded value ends up in which constructor field), with an executable
   semantics on top of the Slice model of Model/Builder.v. *)
From Coq Require Import NArith ZArith List Bool String.
From PTQ Require Import Base.Result Base.Bytes Base.Bits Model.Cell Model.Builder Model.Hashmap.
Import ListNotations.
Local Open Scope Z_scope.

(* Python values *)
Inductive pv :=
| PInt (z : Z) | PBool (b : bool) | PBytes (l : list N) | PBits (l : list bool) | PStr (s : string)
| PNone | PAddr (a : addr) | PCell (c : cell) | PSlice (s : slice)
| PObj (cls : string) (fields : list (string * pv))
| PList (l : list pv)
| PDict (l : list (Z * pv))
| PHex (l : list N)                      (* bytes.hex(): kept as the bytes it renders *)
| PAugDict (l : list (Z * pv)) (extras : list pv)
| PDerived.                              (* a value the tracer does not model; never compared *)

Inductive dexpr :=
| EVar (k : nat) | EConstInt (z : Z) | EConstBool (b : bool) | EConstStr (s : string) | EConstBytes (l : list N)
| ENone | EObj (cls : string) (fields : list (string * dexpr)) | EList (l : list dexpr)
| EHex (e : dexpr) | ESortedValues (e : dexpr) | ELeafSlice | EDerived.

Inductive gop := GLt | GLe | GGt | GGe.
Inductive gexpr := GVar (k : nat) | GConst (z : Z).

Inductive dtree :=
| DOp (sid : nat) (o : dop) (k : dtree)
| DGuard (op : gop) (a b : gexpr) (t_false t_true : dtree)   (* comparison of loaded integers *)
| DIf (var : nat) (bit : nat) (t0 t1 : dtree)         (* bit `bit` (msb = 0) of variable `var` is 0 / 1 *)
| DIfSpecial (sid : nat) (t_ord t_special : dtree)
| DRet (e : dexpr)
| DFail
with dop :=
| OUint (n : nat) | OInt (n : nat) | OBit | OBool | OBits (n : nat) | OBytes (n : nat)
| OCoins | OVarUint (k : nat) | OVarInt (k : nat) | OAddr
| ORefCell | OMaybeRefCell
| ORef (new_sid : nat)                   (* load_ref().begin_parse(): opens sub-slice new_sid *)
| OCall (T : string) (args : list Z)
| OToCell
| OPeekBits (n : nat) | OPeekUint (n : nat) | OPeekBytes (n : nat)
| ODict (n : nat) (v : dtree) | OHashmap (n : nat) (v : dtree)
| OAugDictE (n : nat) (x y : dtree) | OAugDict (n : nat) (x y : dtree).

(* ---- semantics ---- *)
Record tslice := mkTS { ts_ty : Z; ts_s : slice }.      (* a Slice with its cell type *)
Definition slices := list (nat * tslice).
Fixpoint get_slice (ss : slices) (sid : nat) : result tslice :=
  match ss with [] => Err EOther | (i, s) :: r => if (i =? sid)%nat then Ok s else get_slice r sid end.
Fixpoint set_slice (ss : slices) (sid : nat) (s : tslice) : slices :=
  match ss with
  | [] => [(sid, s)]
  | (i, x) :: r => if (i =? sid)%nat then (i, s) :: r else (i, x) :: set_slice r sid s
  end.

(* bit `i` (msb first) of a loaded value: the widths are those of the producing op *)
Definition bits_of_pv (v : pv) (width : nat) : list bool :=
  match v with
  | PInt z => to_bits width (Z.to_N z)
  | PBool b => [b]
  | PBits l => l
  | PBytes l => bytes_to_bits l
  | PNone => [false]            (* presence bit of an optional load *)
  | PDict _ | PCell _ => [true]
  | _ => []
  end.

Fixpoint eval (e : dexpr) (env : list pv) (leaf : pv) : pv :=
  match e with
  | EVar k => nth k env PNone
  | EConstInt z => PInt z | EConstBool b => PBool b | EConstStr s => PStr s | EConstBytes l => PBytes l
  | ENone => PNone
  | EObj cls fs => PObj cls (map (fun '(n, x) => (n, eval x env leaf)) fs)
  | EList l => PList (map (fun x => eval x env leaf) l)
  | EHex x => match eval x env leaf with PBytes l => PHex l | v => v end
  | ESortedValues x => match eval x env leaf with PDict l => PList (map snd l) | v => v end
  | ELeafSlice => leaf
  | EDerived => PDerived
  end.

Definition lift {A} (f : A -> pv) (r : result (A * slice)) : result (pv * slice) :=
  rmap (fun '(a, s) => (f a, s)) r.

Definition table := list (string * list Z * dtree).
Fixpoint lookup (t : table) (name : string) (args : list Z) : option dtree :=
  match t with
  | [] => None
  | (n, a, d) :: r =>
      if (String.eqb n name && (List.length a =? List.length args)%nat && forallb (fun p => Z.eqb (fst p) (snd p)) (combine a args))%bool
      then Some d else lookup r name args
  end.

Definition cell_slice (c : cell) : tslice := let 'Cell ty bits refs := c in mkTS ty (mkS bits refs).

(* ---- augmented dictionaries (hashmap/parse.py: parse_aug / deserialize_hashmap_aug_node), with arbitrary
   value (x) and extra (y) deserialisers.  The nodes in the order they are visited: a leaf (its key, and the
   slice of its cell after the label: the extra, then the value, are read from it), or a fork once both of its
   subtrees are done (the slice of its cell after the label and the two references: its extra is read from
   it).  A non-ordinary cell contributes nothing.  (Model.Hashmap.parse_aug_edge is the same walk with the
   extra modelled as a fixed number of bits.) *)
Inductive aug_node := ANLeaf (key : list bool) (s : slice) | ANFork (s : slice).
Fixpoint aug_nodes (fuel : nat) (ty : Z) (s : slice) (m : Z) (prefix : list bool) : result (list aug_node) :=
  match fuel with
  | O => Err ERecursion
  | S f =>
    if negb (ty =? ty_ordinary)%Z then Ok []
    else
    bind (deserialize_hml s m) (fun '(l, suffix, s1) =>
    if (m <? Z.of_nat l)%Z then Err EValue else      (* label longer than the remaining key *)
    let prefix' := prefix ++ suffix in
    let m' := (m - Z.of_nat l)%Z in
    if (m' =? 0)%Z then Ok [ANLeaf prefix' s1]
    else
      bind (s_load_ref s1) (fun '(c0, s2) =>
      let 'Cell ty0 bits0 refs0 := c0 in
      bind (aug_nodes f ty0 (mkS bits0 refs0) (m' - 1) (prefix' ++ [false])) (fun ls =>
      bind (s_load_ref s2) (fun '(c1, s3) =>
      let 'Cell ty1 bits1 refs1 := c1 in
      bind (aug_nodes f ty1 (mkS bits1 refs1) (m' - 1) (prefix' ++ [true])) (fun rs =>
      Ok (ls ++ rs ++ [ANFork s3]))))))
  end.

(* what visiting a node gives: the pair of a leaf, the extra, and the slice the node's cell is left with *)
Definition aug_visit := (option (Z * pv) * pv * slice)%type.
(* (dict, extras) as parse_hashmap_aug returns them, and what the root's slice is left with *)
Definition aug_result (s0 : slice) (rs : list aug_visit) : pv * slice :=
  (PAugDict (flat_map (fun r => match fst (fst r) with Some kv => [kv] | None => [] end) rs)
            (map (fun r => snd (fst r)) rs),
   last (map snd rs) s0).

(* widths of the variables, for bit tests *)
Definition op_width (o : dop) : nat :=
  match o with
  | OUint n | OInt n | OBits n | OPeekBits n | OPeekUint n => n
  | OBytes n | OPeekBytes n => 8 * n
  | _ => 1
  end.

Section Run.
  Variable tbl : table.

  Fixpoint run (fuel : nat) (t : dtree) (ss : slices) (env : list pv) (widths : list nat) {struct fuel}
    : result (pv * slices) :=
    match fuel with
    | O => Err ERecursion
    | S f =>
      (* one node of an augmented dictionary: y_deserializer, then (leaf) x_deserializer, on the same slice *)
      let visit (xt yt : dtree) (nd : aug_node) : result aug_visit :=
          match nd with
          | ANLeaf key ls =>
              bind (run f yt [(0%nat, mkTS ty_ordinary ls)] [] []) (fun '(ex, ss1) =>
              bind (get_slice ss1 0) (fun t1 =>
              bind (run f xt [(0%nat, t1)] [] []) (fun '(v, ss2) =>
              bind (get_slice ss2 0) (fun t2 => Ok (Some (Z.of_N (of_bits key), v), ex, ts_s t2)))))
          | ANFork s3 =>
              bind (run f yt [(0%nat, mkTS ty_ordinary s3)] [] []) (fun '(ex, ss1) =>
              bind (get_slice ss1 0) (fun t1 => Ok (None, ex, ts_s t1)))
          end in
      match t with
      | DFail => Err EOther
      | DRet e =>
          let leaf := match get_slice ss 0 with Ok s => PSlice (ts_s s) | Err _ => PNone end in
          Ok (eval e env leaf, ss)
      | DIf var bit t0 t1 =>
          let v := nth var env PNone in
          let w := nth var widths 1%nat in
          if nth bit (bits_of_pv v w) false then run f t1 ss env widths else run f t0 ss env widths
      | DGuard op a b t0 t1 =>
          let num (g : gexpr) : Z :=
              match g with
              | GConst z => z
              | GVar k => match nth k env PNone with PInt z => z | PBool true => 1 | _ => 0 end
              end in
          let x := num a in let y := num b in
          let c := match op with GLt => x <? y | GLe => x <=? y | GGt => y <? x | GGe => y <=? x end in
          if c then run f t1 ss env widths else run f t0 ss env widths
      | DIfSpecial sid t0 t1 =>
          bind (get_slice ss sid) (fun s =>
          if (ts_ty s =? ty_ordinary) then run f t0 ss env widths else run f t1 ss env widths)
      | DOp sid o k =>
          bind (get_slice ss sid) (fun ts =>
          let s := ts_s ts in
          let upd (r : result (pv * slice)) : result (pv * slices) :=
              rmap (fun '(v, s') => (v, set_slice ss sid (mkTS (ts_ty ts) s'))) r in
          bind (match o with
                | OUint n => upd (lift PInt (s_load_uint s n))
                | OInt n => upd (lift PInt (s_load_int s n))
                | OBit => upd (lift PBool (s_load_bit s))
                | OBool => upd (lift PBool (s_load_bit s))
                | OBits n => upd (lift PBits (s_load_bits s n))
                | OBytes n => upd (lift PBytes (s_load_bytes s n))
                | OCoins => upd (lift PInt (s_load_coins s))
                | OVarUint k => upd (lift PInt (s_load_var_uint s k))
                | OVarInt k => upd (lift PInt (s_load_var_int s k))
                | OAddr => upd (lift PAddr (s_load_address s))
                | ORefCell => upd (lift PCell (s_load_ref s))
                | OMaybeRefCell =>
                    upd (lift (fun oc => match oc with Some c => PCell c | None => PNone end) (s_load_maybe_ref s))
                | ORef nsid =>
                    bind (s_load_ref s) (fun '(c, s') =>
                    Ok (PCell c, set_slice (set_slice ss sid (mkTS (ts_ty ts) s')) nsid (cell_slice c)))
                | OToCell => Ok (PCell (Cell (ts_ty ts) (s_bits s) (s_refs s)), ss)
                | OPeekBits n => Ok (PBits (s_preload_bits s n), ss)
                | OPeekUint n => rmap (fun z => (PInt z, ss)) (s_preload_uint s n)
                | OPeekBytes n => Ok (PBytes (s_preload_bytes s n), ss)
                | OCall T args =>
                    match lookup tbl T args with
                    | None => Err EOther
                    | Some d =>
                        bind (run f d [(0%nat, ts)] [] []) (fun '(v, ss') =>
                        bind (get_slice ss' 0) (fun ts' => Ok (v, set_slice ss sid ts')))
                    end
                | ODict n vt =>
                    bind (s_load_dict s (Z.of_nat n)) (fun '(ol, s') =>
                    match ol with
                    | None => Ok (PNone, set_slice ss sid (mkTS (ts_ty ts) s'))
                    | Some leaves =>
                        bind (mapM (fun '(key, ls) =>
                                      rmap (fun '(v, _) => (Z.of_N (of_bits key), v))
                                           (run f vt [(0%nat, mkTS ty_ordinary ls)] [] [])) leaves) (fun kvs =>
                        Ok (PDict kvs, set_slice ss sid (mkTS (ts_ty ts) s')))
                    end)
                | OHashmap n vt =>
                    (* HashMap.parse(self, ...): the label and, for a fork, two references are consumed from this
                       very slice; for a single-leaf root the value deserialiser goes on consuming it *)
                    bind (hashmap_parse (ts_ty ts) s (Z.of_nat n)) (fun ol =>
                    match ol with
                    | None => Ok (PNone, ss)
                    | Some leaves =>
                        bind (mapM (fun '(key, ls) =>
                                      rmap (fun '(v, ss1) => (Z.of_N (of_bits key), v, ss1))
                                           (run f vt [(0%nat, mkTS ty_ordinary ls)] [] [])) leaves) (fun kvs =>
                        let rest :=
                          match deserialize_hml s (Z.of_nat n) with
                          | Ok (l, _, s1) =>
                              if (Z.of_nat n - Z.of_nat l =? 0) then
                                match kvs with
                                | [(_, _, ss1)] => match get_slice ss1 0 with Ok t1 => ts_s t1 | Err _ => s1 end
                                | _ => s1
                                end
                              else mkS (s_bits s1) (skipn 2 (s_refs s1))
                          | Err _ => s
                          end in
                        Ok (PDict (map (fun '(k, v, _) => (k, v)) kvs), set_slice ss sid (mkTS (ts_ty ts) rest)))
                    end)
                | OAugDict n xt yt =>
                    (* Slice.load_hashmap_aug: parse_hashmap_aug on this very slice (None for a non-ordinary
                       cell); the slice goes on after the root's extra (fork) or value (single leaf) *)
                    if negb (ts_ty ts =? ty_ordinary) then Ok (PNone, ss)
                    else
                      bind (aug_nodes parse_fuel (ts_ty ts) s (Z.of_nat n) []) (fun nodes =>
                      bind (mapM (visit xt yt) nodes) (fun rs =>
                      Ok (fst (aug_result s rs), set_slice ss sid (mkTS (ts_ty ts) (snd (aug_result s rs))))))
                | OAugDictE n xt yt =>
                    (* Slice.load_hashmap_aug_e: the cell itself when it is exotic; ahme_root$1: the dictionary
                       of the referenced cell; ahme_empty$0: ({}, [self]), the extra is NOT read *)
                    if negb (ts_ty ts =? ty_ordinary) then Ok (PCell (Cell (ts_ty ts) (s_bits s) (s_refs s)), ss)
                    else
                      bind (s_load_bit s) (fun '(x, s1) =>
                      if x then
                        bind (s_load_ref s1) (fun '(c, s2) =>
                        let 'Cell ty0 bits0 refs0 := c in
                        if negb (ty0 =? ty_ordinary) then Ok (PNone, set_slice ss sid (mkTS (ts_ty ts) s2))
                        else
                          bind (aug_nodes parse_fuel ty0 (mkS bits0 refs0) (Z.of_nat n) []) (fun nodes =>
                          bind (mapM (visit xt yt) nodes) (fun rs =>
                          Ok (fst (aug_result (mkS bits0 refs0) rs), set_slice ss sid (mkTS (ts_ty ts) s2)))))
                      else Ok (PAugDict [] [PSlice s1], set_slice ss sid (mkTS (ts_ty ts) s1)))
                end) (fun '(v, ss') => run f k ss' (env ++ [v]) (widths ++ [op_width o])))
      end
    end.

  Definition run_type (fuel : nat) (T : string) (args : list Z) (c : cell) : result (pv * slice) :=
    match lookup tbl T args with
    | None => Err EOther
    | Some d => bind (run fuel d [(0%nat, cell_slice c)] [] []) (fun '(v, ss) =>
                bind (get_slice ss 0) (fun ts => Ok (v, ts_s ts)))
    end.
End Run.
