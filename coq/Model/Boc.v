(* boc/cell.py: Cell.order, Cell.serialize, Cell.to_boc; boc/deserialize.py: Boc.__init__ (bytes only),
   deserialize_boc_header, deserialize_cell, deserialize.  Definitions only. *)
From Coq Require Import NArith ZArith List Bool.
From PTQ Require Import Base.Result Base.Bytes Base.Bits Model.Cell Model.Crc.
Import ListNotations.
Local Open Scope N_scope.

(* (n.bit_length() + 7) // 8 *)
Definition byte_len (n : N) : nat := (N.to_nat (N.size n) + 7) / 8.
Definition nth_r {A} (l : list A) (i : nat) : result A :=
  match nth_error l i with Some x => Ok x | None => Err EIndex end.

(* ---------- Cell.order: depth-first, references right to left, reverse post-order ----------
   [post] holds the finished cells, most recently finished first; membership is by hash, as in a
   Python dict/set of Cells. *)
Fixpoint ord_visit (c : kcell) (post : list kcell) : list kcell :=
  if existsb (cell_eqb c) post then post
  else
    let 'KCell _ _ refs _ _ _ := c in
    c :: (fix go (rs : list kcell) (p : list kcell) : list kcell :=
            match rs with [] => p | r :: rest => ord_visit r (go rest p) end) refs post.
Definition order (c : kcell) : list kcell := ord_visit c [].

Fixpoint index_of (c : kcell) (l : list kcell) (i : N) : result N :=
  match l with
  | [] => Err EIndex
  | x :: r => if cell_eqb c x then Ok i else index_of c r (i + 1)
  end.

(* self._descriptors + self._data_bytes + reference indexes *)
Definition cell_serialize (c : kcell) (ordered : list kcell) (size : nat) : result (list N) :=
  bind (refs_descriptor (length (k_refs c)) (is_exotic (k_ty c)) (k_mask c)) (fun d1 =>
  bind (bits_descriptor (length (k_bits c))) (fun d2 =>
  bind (mapM (fun r => rmap (be_bytes size) (index_of r ordered 0)) (k_refs c)) (fun idx =>
  Ok ([d1; d2] ++ data_bytes (k_bits c) ++ concat idx)))).

Definition boc_magic : list N := [0xb5; 0xee; 0x9c; 0x72].
Definition boc_magic_idx : list N := [0x68; 0xff; 0x65; 0xf3].
Definition boc_magic_idx_crc : list N := [0xac; 0xc3; 0xa7; 0x28].

(* Cell.to_boc(has_idx, hash_crc32, has_cache_bits) with flags = 0 *)
Definition to_boc (c : kcell) (has_idx has_crc has_cache : bool) : result (list N) :=
  let ordered := order c in
  let cells_num := N.of_nat (length ordered) in
  let cells_len := byte_len cells_num in
  bind (to_byte1 (N.lor (128 * b2n has_idx + 64 * b2n has_crc + 32 * b2n has_cache + N.of_nat cells_len)
                        (N.of_nat cells_len))) (fun flags =>
  bind (mapM (fun x => cell_serialize x ordered cells_len) ordered) (fun sers =>
  let payload := concat sers in
  let plen := N.of_nat (length payload) in
  let max_offset := if has_cache then plen * 2 else plen in
  let payload_len := byte_len max_offset in
  bind (to_byte1 (N.of_nat payload_len)) (fun off =>
  let header := boc_magic ++ [flags; off] ++ be_bytes cells_len cells_num ++ be_bytes cells_len 1
                ++ be_bytes cells_len 0 ++ be_bytes payload_len plen ++ be_bytes cells_len 0 in
  let index :=
    if has_idx then
      concat (snd (fold_left (fun '(acc, out) s =>
                                let acc' := acc + N.of_nat (length s) in
                                (acc', out ++ [be_bytes payload_len (if has_cache then acc' * 2 else acc')]))
                             sers (0, [])))
    else [] in
  let body := header ++ index ++ payload in
  Ok (if has_crc then body ++ crc32c body false else body)))).

(* ---------- deserialize_boc_header ---------- *)
Record boc_header := mkHdr {
  h_has_idx : bool; h_crc : bool; h_cache : bool; h_size : nat; h_off : nat;
  h_cells : N; h_roots : N; h_absent : N; h_tot : N; h_root_list : list N; h_index : option (list N);
  h_cells_data : list N }.

Definition byte_at (d : list N) (i : nat) : result N := nth_r d i.

(* [bytes_to_uint(data[j: j + w]) for j in range(i, i + n*w, w)] (w > 0) *)
Fixpoint read_uints (d : list N) (i w n : nat) : list N :=
  match n with O => [] | S n' => of_be (slice d i (i + w)) :: read_uints d (i + w) w n' end.

Definition deserialize_boc_header (d : list N) : result boc_header :=
  let dlen := length d in
  if (dlen <? 4)%nat then Err EBoc else
  let magic := firstn 4 d in
  let reach := bytes_eqb magic boc_magic in
  bind (if reach then
          bind (byte_at d 4) (fun fb =>
          Ok (N.testbit fb 7, N.testbit fb 6, N.testbit fb 5, N.to_nat (fb mod 8)))
        else if bytes_eqb magic boc_magic_idx then
          bind (byte_at d 4) (fun sb => Ok (true, false, false, N.to_nat sb))
        else if bytes_eqb magic boc_magic_idx_crc then
          bind (byte_at d 4) (fun sb => Ok (true, true, false, N.to_nat sb))
        else Err EBoc) (fun '(has_idx, has_crc, has_cache, size) =>
  if (dlen - 5 <? 1 + 3 * size)%nat then Err EBoc else
  bind (byte_at d 5) (fun offb =>
  let off := N.to_nat offb in
  if (size =? 0)%nat then Err EValue else     (* range(6, end, 0) *)
  let end1 := (6 + 3 * size)%nat in
  let cells := of_be (slice d 6 (6 + size)) in
  let roots := of_be (slice d (6 + size) (6 + 2 * size)) in
  let absent := of_be (slice d (6 + 2 * size) (6 + 3 * size)) in
  let i1 := (end1 + off)%nat in
  let tot := of_be (slice d end1 i1) in
  bind (if reach then
          if (Z.of_nat dlen - Z.of_nat i1 <? Z.of_N roots * Z.of_nat size)%Z then Err EOther
          else Ok (read_uints d i1 size (N.to_nat roots), (i1 + N.to_nat roots * size)%nat)
        else Ok ([0], i1)) (fun '(root_list, i2) =>
  bind (if has_idx then
          if (Z.of_nat dlen - Z.of_nat i2 <? Z.of_nat off * Z.of_N cells)%Z then Err EBoc
          else if (off =? 0)%nat then Err EValue
          else Ok (Some (read_uints d i2 off (N.to_nat cells)), (i2 + N.to_nat cells * off)%nat)
        else Ok (None, i2)) (fun '(index, i3) =>
  if (Z.of_nat dlen - Z.of_nat i3 <? Z.of_N tot)%Z then Err EBoc else
  let i4 := (i3 + N.to_nat tot)%nat in
  let cells_data := slice d i3 i4 in
  bind (if has_crc then
          if (dlen - i4 <? 4)%nat then Err EBoc
          else if negb (bytes_eqb (crc32c (firstn i4 d) false) (slice d i4 (i4 + 4))) then Err EBoc
          else Ok (i4 + 4)%nat
        else Ok i4) (fun i5 =>
  if negb (dlen - i5 =? 0)%nat then Err EBoc
  else Ok (mkHdr has_idx has_crc has_cache size off cells roots absent tot root_list index cells_data)))))).

(* ---------- deserialize_cell ---------- *)
Record raw_cell := mkRaw { r_bits : list bool; r_refs : list N; r_ty : Z }.

(* strip the completion tag: the last 1 among the last 7 bits, if any *)
Definition strip_tag (bits : list bool) : list bool :=
  let n := length bits in
  let fix find (j : nat) (k : nat) : option nat :=      (* k = 1..7: index from the end *)
      match j with
      | O => None
      | S j' => if nth (n - k) bits false then Some (n - k)%nat else find j' (S k)
      end in
  match find 7%nat 1%nat with Some e => firstn e bits | None => bits end.

Definition deserialize_cell (d : list N) (ref_size : nat) : result (raw_cell * nat) :=
  bind (byte_at d 0) (fun d1 =>
  let level := N.shiftr d1 5 in
  let total_refs := N.to_nat (N.land d1 7) in
  let has_hashes := N.testbit d1 4 in
  let exotic := N.testbit d1 3 in
  if (total_refs =? 7)%nat && has_hashes then Err EBoc else
  bind (byte_at d 1) (fun d2 =>
  let augmented := N.odd d2 in
  let data_size := (N.to_nat (N.shiftr d2 1) + (if augmented then 1 else 0))%nat in
  let hashes_count := N.to_nat (popcount level + 1) in
  let hashes_size := if has_hashes then (hashes_count * 32)%nat else 0%nat in
  let depth_size := if has_hashes then (hashes_count * 2)%nat else 0%nat in
  if (length d - 2 <? hashes_size + depth_size + data_size + ref_size * total_refs)%nat then Err EBoc else
  let i := (2 + hashes_size + depth_size)%nat in
  let bits0 := bytes_to_bits (slice d i (i + data_size)) in
  let bits := if augmented && negb (length bits0 =? 0)%nat then strip_tag bits0 else bits0 in
  bind (if exotic then
          if (length bits <? 8)%nat then Err EBoc else Ok (of_bits_signed (firstn 8 bits))
        else Ok (-1)%Z) (fun ty =>
  let i2 := (i + data_size)%nat in
  Ok (mkRaw bits (read_uints d i2 ref_size total_refs) ty, (i2 + ref_size * total_refs)%nat)))).

(* ---------- Boc.deserialize ---------- *)
Section Parse.
  Variable H : list N -> list N.

  Fixpoint parse_cells (n : nat) (d : list N) (size : nat) : result (list raw_cell) :=
    match n with
    | O => Ok []
    | S n' => bind (deserialize_cell d size) (fun '(c, j) =>
              bind (parse_cells n' (skipn j d) size) (fun r => Ok (c :: r)))
    end.

  (* cells are rebuilt from the last to the first; built = results for indexes ci+1 .. n-1 *)
  Fixpoint rebuild (raws : list raw_cell) (ci : nat) : result (list kcell) :=
    (* raws = cells ci, ci+1, ...; returns the Cell objects for the same indexes *)
    match raws with
    | [] => Ok []
    | rc :: rest =>
        bind (rebuild rest (S ci)) (fun built =>
        bind (mapM (fun r => if (N.to_nat r <? ci)%nat then Err EOther
                             else if (N.to_nat r =? ci)%nat then Err EAttr
                             else nth_r built (N.to_nat r - S ci)) (r_refs rc)) (fun refs =>
        bind (mk_cell H (r_ty rc) (r_bits rc) refs) (fun k => Ok (k :: built))))
    end.

  Definition deserialize (d : list N) : result (list kcell) :=
    bind (deserialize_boc_header d) (fun h =>
    bind (parse_cells (N.to_nat (h_cells h)) (h_cells_data h) (h_size h)) (fun raws =>
    bind (rebuild raws 0) (fun cells =>
    mapM (fun ri => nth_r cells (N.to_nat ri)) (h_root_list h)))).
End Parse.

(* ====================================================================================================
   Boc.__init__ on str input, and the one_from_boc entry points of Cell / Slice / Builder.
   Text is a list of character codes (code points).  Appended; nothing above is changed. *)
From PTQ Require Model.Address.

Inductive boc_input := InBytes (b : list N) | InStr (s : list N).

(* Py_ISSPACE: '\t' '\n' '\v' '\f' '\r' ' ' *)
Definition py_isspace (c : N) : bool := ((9 <=? c) && (c <=? 13)) || (c =? 32).

(* bytes.fromhex(str) (CPython _PyBytes_FromHex): between bytes any run of ASCII whitespace is skipped
   (also leading and trailing); a byte is two adjacent hex digits of either case; anything else - a lone
   digit, whitespace inside a byte, any other character, any non-ASCII character - is ValueError (None) *)
Fixpoint fromhex_ws (s : list N) : option (list N) :=
  match s with
  | [] => Some []
  | c :: r =>
      if py_isspace c then fromhex_ws r
      else match Address.hex_val c, r with
           | Some hi, l :: r' =>
               match Address.hex_val l with
               | Some lo => option_map (cons (hi * 16 + lo)) (fromhex_ws r')
               | None => None
               end
           | _, _ => None
           end
  end.

(* binascii's table_a2b_base64: the standard alphabet only ('-' and '_' are not in it) *)
Definition b64_std_val (c : N) : option N :=
  if (c =? 45) || (c =? 95) then None else Address.b64_val c.

(* binascii.a2b_base64(data, strict_mode=False), the loop of binascii.c:
   quad = quad_pos, left = leftchar, pads = pads; None = binascii.Error.
   '=' : if quad_pos >= 2 and quad_pos + ++pads >= 4 the decoder stops and returns what it has (the rest of
   the input is not looked at), otherwise the '=' is ignored; a character outside the alphabet is ignored;
   an alphabet character resets pads and feeds the quad.  At the end of input quad_pos must be 0
   ("Incorrect padding" / "number of data characters cannot be 1 more than a multiple of 4"). *)
Fixpoint a2b_base64 (s : list N) (quad left pads : N) : option (list N) :=
  match s with
  | [] => if quad =? 0 then Some [] else None
  | c :: r =>
      if c =? 61 then
        if 2 <=? quad then
          if 4 <=? quad + (pads + 1) then Some [] else a2b_base64 r quad left (pads + 1)
        else a2b_base64 r quad left pads
      else
        match b64_std_val c with
        | None => a2b_base64 r quad left pads
        | Some v =>
            if quad =? 0 then a2b_base64 r 1 v 0
            else if quad =? 1 then option_map (cons (left * 4 + v / 16)) (a2b_base64 r 2 (v mod 16) 0)
            else if quad =? 2 then option_map (cons (left * 16 + v / 4)) (a2b_base64 r 3 (v mod 4) 0)
            else option_map (cons (left * 64 + v)) (a2b_base64 r 0 0 0)
        end
  end.

(* str.encode('ascii') succeeds *)
Definition str_is_ascii (s : list N) : bool := forallb (fun c => c <? 128) s.

(* Boc.__init__: bytes are taken as they are; a str is tried as hex, then (on ValueError) as base64.
   base64.b64decode(str) first encodes the str to ASCII and raises a plain ValueError when it cannot: that
   is not a binascii.Error, so it is not converted to BocError and escapes (EValue); binascii.Error
   becomes BocError (EBoc). *)
Definition boc_normalize (x : boc_input) : result (list N) :=
  match x with
  | InBytes b => Ok b
  | InStr s =>
      match fromhex_ws s with
      | Some b => Ok b
      | None =>
          if negb (str_is_ascii s) then Err EValue
          else match a2b_base64 s 0 0 0 with Some b => Ok b | None => Err EBoc end
      end
  end.

(* bytes.hex() and base64.b64encode(bytes) as text *)
Definition hex_text (b : list N) : list N := Address.bytes_hex b.
Definition b64_text (b : list N) : list N := Address.b64encode false b.

(* Cell.begin_parse: Slice(bits.copy(), refs.copy(), type_), seen as (remaining bits, remaining refs);
   Cell.to_builder: CellError on an exotic cell, else Builder().store_cell(cell) *)
Definition cell_begin_parse (k : kcell) : list bool * list kcell := (k_bits k, k_refs k).
Definition cell_to_builder (k : kcell) : result (list bool * list kcell) :=
  if is_exotic (k_ty k) then Err ECell
  else if (4 <? length (k_refs k))%nat then Err EOther
  else if (1023 <? length (k_bits k))%nat then Err EOverflow
  else Ok (k_bits k, k_refs k).

Section Entry.
  Variable H : list N -> list N.

  (* Cell.from_boc / Builder.from_boc: Boc(data).deserialize() *)
  Definition from_boc_in (x : boc_input) : result (list kcell) :=
    bind (boc_normalize x) (deserialize H).

  (* Cell.one_from_boc: CellError when there is more than one root; cells[0] (IndexError when none) *)
  Definition one_from_boc_in (x : boc_input) : result kcell :=
    bind (from_boc_in x) (fun cells =>
    match cells with
    | [] => Err EIndex
    | [c] => Ok c
    | _ => Err ECell
    end).

  (* Slice.one_from_boc / Builder.one_from_boc: cells[0].begin_parse() / cells[0].to_builder();
     no check on the number of roots: the first root is used *)
  Definition first_root (x : boc_input) : result kcell :=
    bind (from_boc_in x) (fun cells => match cells with [] => Err EIndex | c :: _ => Ok c end).
  Definition slice_one_from_boc_in (x : boc_input) : result (list bool * list kcell) :=
    rmap cell_begin_parse (first_root x).
  Definition builder_one_from_boc_in (x : boc_input) : result (list bool * list kcell) :=
    bind (first_root x) cell_to_builder.
End Entry.
