(* boc/address.py: Address.__init__ (string forms), to_str, __eq__, __hash__; with the CPython pieces it
   leans on modelled here too: base64 (standard / url-safe, non-validating decode), decimal and hex text.
   Strings are lists of character codes. *)
From Coq Require Import NArith ZArith List Bool.
From PTQ Require Import Base.Result Base.Bytes Base.Bits Model.Cell Model.Crc.
Import ListNotations.
Local Open Scope N_scope.

(* ---------- base64 (RFC 4648), as CPython's binascii implements it ---------- *)
Definition b64_char (urlsafe : bool) (v : N) : N :=
  if v <? 26 then 65 + v                       (* A-Z *)
  else if v <? 52 then 97 + (v - 26)           (* a-z *)
  else if v <? 62 then 48 + (v - 52)           (* 0-9 *)
  else if v =? 62 then (if urlsafe then 45 else 43)   (* - or + *)
  else (if urlsafe then 95 else 47).                  (* _ or / *)

(* value of a character of the standard alphabet; urlsafe_b64decode first maps '-' to '+', '_' to '/' *)
Definition b64_val (c : N) : option N :=
  if (65 <=? c) && (c <=? 90) then Some (c - 65)
  else if (97 <=? c) && (c <=? 122) then Some (c - 97 + 26)
  else if (48 <=? c) && (c <=? 57) then Some (c - 48 + 52)
  else if (c =? 43) || (c =? 45) then Some 62
  else if (c =? 47) || (c =? 95) then Some 63
  else None.

Fixpoint b64_encode_groups (urlsafe : bool) (bs : list N) : list N :=
  match bs with
  | a :: b :: c :: r =>
      b64_char urlsafe (a / 4) :: b64_char urlsafe ((a mod 4) * 16 + b / 16) ::
      b64_char urlsafe ((b mod 16) * 4 + c / 64) :: b64_char urlsafe (c mod 64) ::
      b64_encode_groups urlsafe r
  | [a; b] =>
      [b64_char urlsafe (a / 4); b64_char urlsafe ((a mod 4) * 16 + b / 16);
       b64_char urlsafe ((b mod 16) * 4); 61]
  | [a] => [b64_char urlsafe (a / 4); b64_char urlsafe ((a mod 4) * 16); 61; 61]
  | [] => []
  end.
Definition b64encode := b64_encode_groups.

Fixpoint filter_map {A B} (f : A -> option B) (l : list A) : list B :=
  match l with [] => [] | x :: r => match f x with Some y => y :: filter_map f r | None => filter_map f r end end.

Fixpoint b64_decode_quads (vs : list N) : list N :=
  match vs with
  | a :: b :: c :: d :: r =>
      (a * 4 + b / 16) :: ((b mod 16) * 16 + c / 4) :: ((c mod 4) * 64 + d) :: b64_decode_quads r
  | _ => []
  end.
(* non-validating decode of a string without '=': characters outside the alphabet are discarded;
   a number of alphabet characters that is not a multiple of 4 is binascii.Error (Incorrect padding) *)
Definition b64decode (s : list N) : result (list N) :=
  let vs := filter_map b64_val s in
  if (length vs mod 4 =? 0)%nat then Ok (b64_decode_quads vs) else Err EValue.

(* ---------- decimal and hex text ---------- *)
Definition hex_digit (v : N) : N := if v <? 10 then 48 + v else 87 + v.       (* lower case *)
Definition hex_val (c : N) : option N :=
  if (48 <=? c) && (c <=? 57) then Some (c - 48)
  else if (97 <=? c) && (c <=? 102) then Some (c - 87)
  else if (65 <=? c) && (c <=? 70) then Some (c - 55)
  else None.
Definition bytes_hex (bs : list N) : list N := flat_map (fun b => [hex_digit (b / 16); hex_digit (b mod 16)]) bs.
Fixpoint fromhex (s : list N) : option (list N) :=
  match s with
  | [] => Some []
  | h :: l :: r =>
      match hex_val h, hex_val l, fromhex r with
      | Some a, Some b, Some rest => Some (a * 16 + b :: rest)
      | _, _, _ => None
      end
  | _ => None
  end.

Fixpoint dec_digits (fuel : nat) (n : N) (acc : list N) : list N :=
  match fuel with
  | O => acc
  | S f => if n <? 10 then (48 + n) :: acc else dec_digits f (n / 10) ((48 + n mod 10) :: acc)
  end.
Definition dec_of_N (n : N) : list N := dec_digits (S (N.to_nat (N.size n))) n [].
Definition dec_of_Z (z : Z) : list N :=           (* str(int) *)
  match z with
  | Z0 => [48]
  | Zpos p => dec_of_N (Npos p)
  | Zneg p => 45 :: dec_of_N (Npos p)
  end.
Definition dec_val (c : N) : option N := if (48 <=? c) && (c <=? 57) then Some (c - 48) else None.
Fixpoint parse_dec_N (s : list N) (acc : N) : option N :=
  match s with
  | [] => Some acc
  | c :: r => match dec_val c with Some d => parse_dec_N r (acc * 10 + d) | None => None end
  end.
(* int(text) for canonical text: optional '-', then at least one digit *)
Definition parse_dec_Z (s : list N) : option Z :=
  match s with
  | [] => None
  | 45 :: (_ :: _) as r => option_map (fun n => Z.opp (Z.of_N n)) (parse_dec_N r 0)
  | _ => option_map Z.of_N (parse_dec_N s 0)
  end.

(* str.split(':') *)
Fixpoint split_colon (s : list N) (cur : list N) : list (list N) :=
  match s with
  | [] => [rev cur]
  | c :: r => if c =? 58 then rev cur :: split_colon r [] else split_colon r (c :: cur)
  end.

(* ---------- Address ---------- *)
Record address := mkAddr { a_wc : Z; a_hash : list N; a_bounceable : bool; a_test_only : bool }.

(* Address.is_hex *)
Definition is_hex (s : list N) : option address :=
  match split_colon s [] with
  | [wc; h] =>
      match h, fromhex h, parse_dec_Z wc with
      | _ :: _, Some hp, Some w => Some (mkAddr w hp false false)
      | _, _, _ => None
      end
  | _ => None
  end.

(* int.from_bytes(b, 'big', signed=True) of one byte / int.to_bytes(1, 'big', signed=True) *)
Definition signed_byte (b : N) : Z := if b <? 128 then Z.of_N b else (Z.of_N b - 256)%Z.
Definition byte_of_signed (w : Z) : result N :=
  if ((-128 <=? w) && (w <=? 127))%Z then Ok (Z.to_N (w mod 256)) else Err EOverflow.

(* Address.is_b64: Ok None = "not base64" (binascii.Error caught), Err = an exception escapes *)
Definition is_b64 (s : list N) : result (option address) :=
  match b64decode s with
  | Err _ => Ok None
  | Ok decoded =>
      match decoded with
      | [] => Err EIndex
      | tag :: _ =>
          let test := N.testbit tag 7 in
          let tag' := if test then N.lxor tag 128 else tag in
          let bounce := tag' =? 17 in
          let wc := match slice decoded 1 2 with [b] => signed_byte b | _ => 0%Z end in
          let hp := slice decoded 2 34 in
          if negb (bytes_eqb (skipn 34 decoded) (crc16 (firstn 34 decoded))) then Err EAddress
          else Ok (Some (mkAddr wc hp bounce test))
      end
  end.

(* Address(str): raw form first, then friendly form, else AddressError *)
Definition address_of_str (s : list N) : result address :=
  match is_hex s with
  | Some a => Ok a
  | None => match is_b64 s with
            | Ok (Some a) => Ok a
            | Ok None => Err EAddress
            | Err e => Err e
            end
  end.

(* Address.to_str(is_user_friendly, is_url_safe, is_bounceable, is_test_only) *)
Definition to_str (wc : Z) (h : list N) (friendly urlsafe bounceable test_only : bool) : result (list N) :=
  if negb friendly then Ok (dec_of_Z wc ++ [58] ++ bytes_hex h)
  else
    let tag := if bounceable then 17 else 81 in
    let tag := if test_only then N.lor tag 128 else tag in
    bind (byte_of_signed wc) (fun wb =>
    let body := tag :: wb :: h in
    Ok (b64encode urlsafe (body ++ crc16 body))).

(* Address.__eq__ / __hash__ *)
Definition address_eqb (a b : address) : bool := (a_wc a =? a_wc b)%Z && bytes_eqb (a_hash a) (a_hash b).
Definition address_pyhash (a : address) : Z := (Z.of_N (of_be (a_hash a)) + a_wc a)%Z.
