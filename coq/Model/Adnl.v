(* crypto/ciphers.py: AdnlChannel key assignment, packet layout, AES key/iv derivation;
   crypto/signature.py: sign_message / verify_sign glue; crypto/keys.py: mnemonic_new / mnemonic_is_valid loop.
   Cryptographic primitives are parameters. *)
From Coq Require Import NArith ZArith List Bool.
From PTQ Require Import Base.Result Base.Bytes Base.Bits.
Import ListNotations.
Local Open Scope N_scope.

(* Python bytes comparison: lexicographic, a proper prefix is smaller *)
Fixpoint bytes_cmp (a b : list N) : comparison :=
  match a, b with
  | [], [] => Eq
  | [], _ :: _ => Lt
  | _ :: _, [] => Gt
  | x :: a', y :: b' => match N.compare x y with Eq => bytes_cmp a' b' | c => c end
  end.

Section Adnl.
  Variable H : list N -> list N.                                   (* sha256 *)
  Variable dh : list N -> list N -> list N.                        (* x25519.scalar_mult(private, public) *)
  Variable ctr : list N -> list N -> list N -> list N.             (* AES-CTR(key, iv) applied to data *)

  Record channel := mkCh { enc_key : list N; dec_key : list N; client_key_id : list N; server_key_id : list N }.

  Definition aes_magic : list N := [0xd4; 0xad; 0xbc; 0x2d].
  Definition get_key_aes_id (key : list N) : list N := H (aes_magic ++ key).

  (* AdnlChannel.__init__(client, server, local_id, peer_id) *)
  Definition mk_channel (local_xpriv peer_xpub local_id peer_id : list N) : channel :=
    let shared := dh local_xpriv peer_xpub in
    let '(e, d) := match bytes_cmp local_id peer_id with
                   | Gt => (shared, rev shared)
                   | Lt => (rev shared, shared)
                   | Eq => (shared, shared)
                   end in
    mkCh e d (get_key_aes_id e) (get_key_aes_id d).

  (* create_aes_ctr_sipher_from_key_n_data + create_aes_ctr_cipher (raises unless the key is 32 bytes) *)
  Definition cipher_params (key data : list N) : result (list N * list N) :=
    let k := firstn 16 key ++ slice data 16 32 in
    let iv := firstn 4 data ++ slice key 20 32 in
    if (length k =? 32)%nat then Ok (k, iv) else Err EOther.

  (* AdnlChannel.encrypt: key id (32) ++ checksum (32) ++ ciphertext *)
  Definition encrypt (ch : channel) (data : list N) : result (list N) :=
    let checksum := H data in
    bind (cipher_params (enc_key ch) checksum) (fun '(k, iv) =>
    Ok (client_key_id ch ++ checksum ++ ctr k iv data)).

  Definition decrypt (ch : channel) (encrypted checksum : list N) : result (list N) :=
    bind (cipher_params (dec_key ch) checksum) (fun '(k, iv) => Ok (ctr k iv encrypted)).

  (* the receiving side splits a packet: 32 bytes key id, 32 bytes checksum, rest *)
  Definition packet_key_id (p : list N) := firstn 32 p.
  Definition packet_checksum (p : list N) := slice p 32 64.
  Definition packet_payload (p : list N) := skipn 64 p.
End Adnl.

Section SignGlue.
  (* crypto_sign(message, sk) returns signature ++ message; verify as in Model/Signatures.v *)
  Variable crypto_sign : list N -> list N -> list N.
  Variable verify_raw : list N -> list N -> list N -> option unit.   (* None = BadSignatureError *)
  Definition sign_message (msg sk : list N) : list N := firstn 64 (crypto_sign msg sk).
  Definition verify_sign (pk msg sg : list N) : bool :=
    match verify_raw pk msg sg with Some _ => true | None => false end.
End SignGlue.

Section Mnemonic.
  (* mnemonic_new: draw words_count words, retry until is_basic_seed(entropy(words)) *)
  Variable basic_seed_of_words : list N -> bool.     (* is_basic_seed (mnemonic_to_entropy ws) *)
  (* the random source: a stream of candidate word lists, each of the requested length *)
  Fixpoint mnemonic_new (fuel : nat) (candidates : nat -> list N) (i : nat) : result (list N) :=
    match fuel with
    | O => Err EFuel
    | S f => if basic_seed_of_words (candidates i) then Ok (candidates i)
             else mnemonic_new f candidates (S i)
    end.
  Definition mnemonic_is_valid (ws : list N) : bool := (length ws =? 24)%nat && basic_seed_of_words ws.

  (* get_secure_random_number(0, 2048): two random bytes masked to 11 bits *)
  Definition secure_random_2048 (r0 r1 : N) : N := N.land (r0 * 256 + r1) 2047.
End Mnemonic.
