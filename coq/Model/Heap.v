(* C08: a heap model of the containers behind Cell / Slice / Builder objects, to state aliasing properties.
   Every Python object holds REFERENCES (addresses) to a mutable bit container (bitarray) and a mutable list
   container (refs); an operation either allocates a fresh copy or shares an address, exactly as the Python
   statement does (`bits.copy()` allocates; `self._refs += cell.refs` mutates in place; `refs[off:]` allocates).
   Definitions only. *)
From Coq Require Import NArith ZArith List Bool.
From PTQ Require Import Base.Result.
Import ListNotations.

Definition addr := nat.
Definition oid := nat.                        (* object identifier: index in the object table *)

Inductive obj :=
| OCell (bits_a : addr) (refs_a : addr)                       (* Cell: self.bits, self.refs *)
| OSlice (bits_a : addr) (refs_a : addr) (off : nat)          (* Slice: bits, refs, ref_offset *)
| OBuilder (bits_a : addr) (refs_a : addr).                   (* Builder: _bits, _refs *)

Record heap := mkHeap {
  bitsH : list (list bool);          (* bit containers, by address *)
  refsH : list (list oid);           (* list containers holding cell object ids *)
  objs : list obj }.

Definition empty_heap : heap := mkHeap [] [] [].

Definition get_bits (h : heap) (a : addr) : list bool := nth a (bitsH h) [].
Definition get_refs (h : heap) (a : addr) : list oid := nth a (refsH h) [].

Fixpoint set_nth {A} (l : list A) (i : nat) (x : A) : list A :=
  match l, i with
  | [], _ => []
  | _ :: r, O => x :: r
  | y :: r, S i' => y :: set_nth r i' x
  end.

Definition alloc_bits (h : heap) (b : list bool) : heap * addr :=
  (mkHeap (bitsH h ++ [b]) (refsH h) (objs h), length (bitsH h)).
Definition alloc_refs (h : heap) (r : list oid) : heap * addr :=
  (mkHeap (bitsH h) (refsH h ++ [r]) (objs h), length (refsH h)).
Definition write_bits (h : heap) (a : addr) (b : list bool) : heap :=
  mkHeap (set_nth (bitsH h) a b) (refsH h) (objs h).
Definition write_refs (h : heap) (a : addr) (r : list oid) : heap :=
  mkHeap (bitsH h) (set_nth (refsH h) a r) (objs h).
Definition new_obj (h : heap) (o : obj) : heap * oid :=
  (mkHeap (bitsH h) (refsH h) (objs h ++ [o]), length (objs h)).
Definition set_obj (h : heap) (i : oid) (o : obj) : heap :=
  mkHeap (bitsH h) (refsH h) (set_nth (objs h) i o).

(* operations of the public API that create or mutate objects *)
Inductive op :=
| OpNewBuilder                                   (* Builder() *)
| OpEmptyCell                                    (* Cell.empty() *)
| OpStoreBits (b : oid) (l : list bool)          (* builder.store_bits / store_uint ... : extend in place *)
| OpStoreRef (b : oid) (c : oid)                 (* builder.store_ref: append in place *)
| OpStoreCell (b : oid) (c : oid)                (* builder.store_cell: extend bits, `_refs += cell.refs` *)
| OpStoreSlice (b : oid) (s : oid)               (* builder.store_slice *)
| OpEndCell (b : oid)                            (* Cell(_bits.copy(), _refs.copy()) *)
| OpBuilderToSlice (b : oid)                     (* Slice(_bits.copy(), _refs.copy()) *)
| OpBeginParse (c : oid)                         (* Slice(bits.copy(), refs.copy()) *)
| OpCellCopy (c : oid)                           (* Cell(bits.copy(), refs.copy()) *)
| OpToBuilder (c : oid)                          (* Builder().store_cell(cell) *)
| OpLoadBits (s : oid) (n : nat)                 (* del self.bits[:n] in place *)
| OpLoadRef (s : oid)                            (* ref_offset += 1 *)
| OpSliceToCell (s : oid)                        (* Cell(bits.copy(), refs[off:]) *)
| OpSliceCopy (s : oid)                          (* Slice(bits.copy(), refs[off:]) *)
| OpSliceToBuilder (s : oid)                     (* Builder().store_slice(self) *)
| OpRead (c : oid).                              (* hash / order / to_boc / get_data_bytes: read only *)

Definition is_cell (h : heap) (i : oid) : bool := match nth_error (objs h) i with Some (OCell _ _) => true | _ => false end.

(* one step; an ill-typed or refused operation leaves the heap unchanged (the Python call raised) *)
Definition step (h : heap) (o : op) : heap :=
  match o with
  | OpNewBuilder =>
      let '(h1, ba) := alloc_bits h [] in let '(h2, ra) := alloc_refs h1 [] in fst (new_obj h2 (OBuilder ba ra))
  | OpEmptyCell =>
      let '(h1, ba) := alloc_bits h [] in let '(h2, ra) := alloc_refs h1 [] in fst (new_obj h2 (OCell ba ra))
  | OpStoreBits b l =>
      match nth_error (objs h) b with
      | Some (OBuilder ba ra) =>
          if (1023 <? length (get_bits h ba) + length l)%nat then h else write_bits h ba (get_bits h ba ++ l)
      | _ => h
      end
  | OpStoreRef b c =>
      match nth_error (objs h) b with
      | Some (OBuilder ba ra) =>
          if is_cell h c && (length (get_refs h ra) <? 4)%nat then write_refs h ra (get_refs h ra ++ [c]) else h
      | _ => h
      end
  | OpStoreCell b c =>
      match nth_error (objs h) b, nth_error (objs h) c with
      | Some (OBuilder ba ra), Some (OCell cb cr) =>
          if (4 <? length (get_refs h ra) + length (get_refs h cr))%nat
             || (1023 <? length (get_bits h ba) + length (get_bits h cb))%nat then h
          else write_refs (write_bits h ba (get_bits h ba ++ get_bits h cb)) ra (get_refs h ra ++ get_refs h cr)
      | _, _ => h
      end
  | OpStoreSlice b s =>
      match nth_error (objs h) b, nth_error (objs h) s with
      | Some (OBuilder ba ra), Some (OSlice sb sr off) =>
          let rest := skipn off (get_refs h sr) in
          if (4 <? length (get_refs h ra) + length rest)%nat
             || (1023 <? length (get_bits h ba) + length (get_bits h sb))%nat then h
          else write_refs (write_bits h ba (get_bits h ba ++ get_bits h sb)) ra (get_refs h ra ++ rest)
      | _, _ => h
      end
  | OpEndCell b =>
      match nth_error (objs h) b with
      | Some (OBuilder ba ra) =>
          let '(h1, nb) := alloc_bits h (get_bits h ba) in
          let '(h2, nr) := alloc_refs h1 (get_refs h ra) in fst (new_obj h2 (OCell nb nr))
      | _ => h
      end
  | OpBuilderToSlice b =>
      match nth_error (objs h) b with
      | Some (OBuilder ba ra) =>
          let '(h1, nb) := alloc_bits h (get_bits h ba) in
          let '(h2, nr) := alloc_refs h1 (get_refs h ra) in fst (new_obj h2 (OSlice nb nr 0))
      | _ => h
      end
  | OpBeginParse c =>
      match nth_error (objs h) c with
      | Some (OCell cb cr) =>
          let '(h1, nb) := alloc_bits h (get_bits h cb) in
          let '(h2, nr) := alloc_refs h1 (get_refs h cr) in fst (new_obj h2 (OSlice nb nr 0))
      | _ => h
      end
  | OpCellCopy c =>
      match nth_error (objs h) c with
      | Some (OCell cb cr) =>
          let '(h1, nb) := alloc_bits h (get_bits h cb) in
          let '(h2, nr) := alloc_refs h1 (get_refs h cr) in fst (new_obj h2 (OCell nb nr))
      | _ => h
      end
  | OpToBuilder c =>
      match nth_error (objs h) c with
      | Some (OCell cb cr) =>
          let '(h1, nb) := alloc_bits h (get_bits h cb) in
          let '(h2, nr) := alloc_refs h1 (get_refs h cr) in fst (new_obj h2 (OBuilder nb nr))
      | _ => h
      end
  | OpLoadBits s n =>
      match nth_error (objs h) s with
      | Some (OSlice sb sr off) =>
          if (length (get_bits h sb) <? n)%nat then h else write_bits h sb (skipn n (get_bits h sb))
      | _ => h
      end
  | OpLoadRef s =>
      match nth_error (objs h) s with
      | Some (OSlice sb sr off) =>
          if (off <? length (get_refs h sr))%nat then set_obj h s (OSlice sb sr (S off)) else h
      | _ => h
      end
  | OpSliceToCell s =>
      match nth_error (objs h) s with
      | Some (OSlice sb sr off) =>
          let '(h1, nb) := alloc_bits h (get_bits h sb) in
          let '(h2, nr) := alloc_refs h1 (skipn off (get_refs h sr)) in fst (new_obj h2 (OCell nb nr))
      | _ => h
      end
  | OpSliceCopy s =>
      match nth_error (objs h) s with
      | Some (OSlice sb sr off) =>
          let '(h1, nb) := alloc_bits h (get_bits h sb) in
          let '(h2, nr) := alloc_refs h1 (skipn off (get_refs h sr)) in fst (new_obj h2 (OSlice nb nr 0))
      | _ => h
      end
  | OpSliceToBuilder s =>
      match nth_error (objs h) s with
      | Some (OSlice sb sr off) =>
          let '(h1, nb) := alloc_bits h (get_bits h sb) in
          let '(h2, nr) := alloc_refs h1 (skipn off (get_refs h sr)) in fst (new_obj h2 (OBuilder nb nr))
      | _ => h
      end
  | OpRead _ => h
  end.

Definition run_ops (ops : list op) : heap := fold_left step ops empty_heap.

(* the observable content of a cell object: its bits and, recursively, the contents of the cells it references
   (fuel bounds the depth of the unfolding; references always point to earlier objects) *)
Inductive content := Content (bits : list bool) (refs : list content) | NotACell.
Fixpoint cell_content (fuel : nat) (h : heap) (i : oid) : content :=
  match fuel with
  | O => NotACell
  | S f =>
    match nth_error (objs h) i with
    | Some (OCell ba ra) => Content (get_bits h ba) (map (cell_content f h) (get_refs h ra))
    | _ => NotACell
    end
  end.

(* what an object currently holds, as a caller can observe it *)
Inductive view := VCell (bits : list bool) (refs : list oid) | VSlice (bits : list bool) (refs : list oid)
                | VBuilder (bits : list bool) (refs : list oid) | VNothing.
Definition obj_view (h : heap) (i : oid) : view :=
  match nth_error (objs h) i with
  | Some (OCell ba ra) => VCell (get_bits h ba) (get_refs h ra)
  | Some (OSlice ba ra off) => VSlice (get_bits h ba) (skipn off (get_refs h ra))
  | Some (OBuilder ba ra) => VBuilder (get_bits h ba) (get_refs h ra)
  | None => VNothing
  end.
