(* Cost semantics (C19): the traversal of Cell.order instrumented with a counter of visits
   (one per stack pop in the Python code = one per call of the recursive formulation). *)
From Coq Require Import NArith ZArith List Bool.
From PTQ Require Import Base.Result Base.Bytes Base.Bits Model.Cell Model.Boc.
Import ListNotations.

Fixpoint ord_visit_c (c : kcell) (st : list kcell * nat) : list kcell * nat :=
  let '(post, n) := st in
  if existsb (cell_eqb c) post then (post, S n)
  else
    let 'KCell _ _ refs _ _ _ := c in
    let '(p', n') := (fix go (rs : list kcell) (s : list kcell * nat) : list kcell * nat :=
                        match rs with [] => s | r :: rest => ord_visit_c r (go rest s) end) refs (post, S n) in
    (c :: p', n').

Definition order_visits (c : kcell) : nat := snd (ord_visit_c c ([], O)).
Definition nrefs_sum (l : list kcell) : nat := fold_right (fun x a => length (k_refs x) + a) O l.
