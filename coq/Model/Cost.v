(* Cost semantics (C19): the traversal of Cell.order instrumented with a counter of visits
   (one per stack pop in the Python code = one per call of the recursive formulation). *)
From Coq Require Import NArith ZArith List Bool.
From PTQ Require Import Base.Result Base.Bytes Base.Bits Model.Cell Model.Boc Model.Builder Model.Hashmap.
Import ListNotations.

Fixpoint ord_visit_c (c : kcell) (st : list kcell * nat) : list kcell * nat :=
  let '(post, n) := st in
  if existsb (cell_eqb c) post then (post, S n)
  else
    let 'KCell _ _ refs _ _ _ := c in
    let '(p', n') := (fix go (rs : list kcell) (s : list kcell * nat) : list kcell * nat :=
                        match rs with [] => s | r :: rest => ord_visit_c r (go rest s) end) refs (post, S n) in
    (c :: p', n').

Definition order_visits (c : kcell) : nat := snd (ord_visit_c c ([], O)).
Definition nrefs_sum (l : list kcell) : nat := fold_right (fun x a => length (k_refs x) + a) O l.

(* Dictionary parser (Model/Hashmap.v parse_edge = parse.py `parse`) instrumented with a counter of edge visits
   (one per call of `parse` that gets past its label) and a counter of visits that end without an entry
   (non-ordinary cell, or the empty key).  Returns (leaves, (visits, empty terminals)).  Proofs: Proofs/DictCost.v *)
Fixpoint parse_edge_c (fuel : nat) (ty : Z) (s : slice) (m : Z) (prefix : list bool)
  : result (leaves * (nat * nat)) :=
  match fuel with
  | O => Err ERecursion
  | S f =>
    bind (deserialize_hml s m) (fun '(l, suffix, s1) =>
    if (m <? Z.of_nat l)%Z then Err EValue else
    let prefix' := prefix ++ suffix in
    let m' := (m - Z.of_nat l)%Z in
    if negb (ty =? ty_ordinary)%Z then Ok ([], (1, 1))%nat
    else if (m' =? 0)%Z then
      match prefix' with [] => Ok ([], (1, 1))%nat | _ => Ok ([(prefix', s1)], (1, 0))%nat end
    else
      bind (s_load_ref s1) (fun '(c0, s2) =>
      let 'Cell ty0 bits0 refs0 := c0 in
      bind (parse_edge_c f ty0 (mkS bits0 refs0) (m' - 1) (prefix' ++ [false])) (fun '(ls, (vl, zl)) =>
      bind (s_load_ref s2) (fun '(c1, _) =>
      let 'Cell ty1 bits1 refs1 := c1 in
      bind (parse_edge_c f ty1 (mkS bits1 refs1) (m' - 1) (prefix' ++ [true])) (fun '(rs, (vr, zr)) =>
      Ok (ls ++ rs, (S (vl + vr), zl + zr))%nat)))))
  end.

Definition dict_visits (r : leaves * (nat * nat)) : nat := fst (snd r).
Definition dict_empties (r : leaves * (nat * nat)) : nat := snd (snd r).

