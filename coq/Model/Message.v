(* tlb/transaction.py: MessageAny.serialize, InternalMsgInfo/ExternalMsgInfo/ExternalOutMsgInfo.serialize;
   tlb/account.py: StateInit.serialize, TickTock.serialize; tlb/block.py: CurrencyCollection /
   ExtraCurrencyCollection.serialize; tlb/utils.py: HashUpdate.serialize.  Definitions only.
   (The parsers are the traced decision trees of Gen/TlbImpl.v.) *)
From Coq Require Import NArith ZArith List Bool.
From PTQ Require Import Base.Result Base.Bytes Base.Bits Model.Cell Model.Builder Model.Hashmap.
Import ListNotations.
Local Open Scope Z_scope.

(* ExtraCurrencyCollection: {currency id (32 bit key): amount}; insertion-ordered dict *)
Definition extra_currencies := list (Z * Z).

(* HashMap(32, value_serializer = store_var_uint(src, 5)).serialize() then store_dict *)
Definition ser_extra (ec : extra_currencies) : result cell :=
  bind (mapM (fun '(k, v) =>
          bind (key_bits 32 k) (fun kb =>
          bind (b_store_var_uint b_empty v 5) (fun vb => Ok (kb, (b_bits vb, @nil cell))))) ec) (fun kvl =>
  let d := fold_left (fun acc kv => dict_set acc (fst kv) (snd kv)) kvl [] in
  bind (serialize_dict d 32) (fun oc =>
  bind (b_store_maybe_ref b_empty oc) b_end_cell)).

Definition ser_currency (grams : Z) (ec : extra_currencies) : result cell :=
  bind (b_store_coins b_empty grams) (fun b1 =>
  bind (ser_extra ec) (fun c => bind (b_store_cell b1 c) b_end_cell)).

Inductive msg_info :=
| IntInfo (ihr_disabled bounce bounced : bool) (src dest : addr) (grams : Z) (extra : extra_currencies)
          (ihr_fee fwd_fee created_lt created_at : Z)
| ExtInInfo (src dest : addr) (import_fee : Z)
| ExtOutInfo (src dest : addr) (created_lt created_at : Z).

Definition ser_info (i : msg_info) : result cell :=
  match i with
  | IntInfo d b bd src dst g ec ihr fwd lt at_ =>
      bind (b_store_uint b_empty 0 1) (fun b0 =>
      bind (b_store_bit b0 d) (fun b1 => bind (b_store_bit b1 b) (fun b2 => bind (b_store_bit b2 bd) (fun b3 =>
      bind (b_store_address b3 src) (fun b4 => bind (b_store_address b4 dst) (fun b5 =>
      bind (ser_currency g ec) (fun vc => bind (b_store_cell b5 vc) (fun b6 =>
      bind (b_store_coins b6 ihr) (fun b7 => bind (b_store_coins b7 fwd) (fun b8 =>
      bind (b_store_uint b8 lt 64) (fun b9 => bind (b_store_uint b9 at_ 32) b_end_cell)))))))))))
  | ExtInInfo src dst fee =>
      bind (b_store_uint b_empty 2 2) (fun b0 =>
      bind (b_store_address b0 src) (fun b1 => bind (b_store_address b1 dst) (fun b2 =>
      bind (b_store_coins b2 fee) b_end_cell)))
  | ExtOutInfo src dst lt at_ =>
      bind (b_store_uint b_empty 3 2) (fun b0 =>
      bind (b_store_address b0 src) (fun b1 => bind (b_store_address b1 dst) (fun b2 =>
      bind (b_store_uint b2 lt 64) (fun b3 => bind (b_store_uint b3 at_ 32) b_end_cell))))
  end.

Record state_init := mkSI {
  si_split_depth : option Z; si_special : option (bool * bool);
  si_code : option cell; si_data : option cell; si_library : option cell }.

Definition ser_state_init (si : state_init) : result cell :=
  bind (match si_split_depth si with
        | Some d => bind (b_store_bit b_empty true) (fun b => b_store_uint b d 5)
        | None => b_store_bit b_empty false end) (fun b1 =>
  bind (match si_special si with
        | Some (tick, tock) =>
            bind (b_store_bit b1 true) (fun b =>
            bind (bind (b_store_bit b_empty tick) (fun t => bind (b_store_bit t tock) b_end_cell)) (b_store_cell b))
        | None => b_store_bit b1 false end) (fun b2 =>
  bind (b_store_maybe_ref b2 (si_code si)) (fun b3 =>
  bind (b_store_maybe_ref b3 (si_data si)) (fun b4 =>
  bind (b_store_maybe_ref b4 (si_library si)) b_end_cell)))).

Definition avail_bits (b : builder) : Z := 1023 - Z.of_nat (length (b_bits b)).
Definition avail_refs (b : builder) : Z := 4 - Z.of_nat (length (b_refs b)).
Definition cbits (c : cell) : Z := let 'Cell _ bits _ := c in Z.of_nat (length bits).
Definition crefs (c : cell) : Z := let 'Cell _ _ refs := c in Z.of_nat (length refs).

(* MessageAny.serialize *)
Definition ser_message (info : msg_info) (init : option state_init) (body : cell) : result cell :=
  bind (ser_info info) (fun ic =>
  bind (b_store_cell b_empty ic) (fun b0 =>
  bind (match init with
        | None => b_store_bit b0 false
        | Some si =>
            bind (b_store_bit b0 true) (fun b1 =>
            bind (ser_state_init si) (fun ic' =>
            let fits0 := (cbits ic' <=? avail_bits b1 - 2) && (crefs ic' <=? avail_refs b1) in
            let bits_left := avail_bits b1 - 2 - cbits ic' in
            let refs_left := avail_refs b1 - crefs ic' in
            let fits := fits0 && ((1 <=? refs_left) || ((cbits body <=? bits_left - 1) && (crefs body <=? refs_left))) in
            if fits then bind (b_store_bit b1 false) (fun b2 => b_store_cell b2 ic')
            else bind (b_store_bit b1 true) (fun b2 => b_store_ref b2 ic')))
        end) (fun b3 =>
  bind (if (cbits body <=? avail_bits b3 - 1) && (crefs body <=? avail_refs b3)
        then bind (b_store_bit b3 false) (fun b4 => b_store_cell b4 body)
        else bind (b_store_bit b3 true) (fun b4 => b_store_ref b4 body)) b_end_cell))).

(* HashUpdate.serialize *)
Definition ser_hash_update (old_hash new_hash : list N) : result cell :=
  bind (b_store_bytes b_empty [0x72%N]) (fun b0 =>
  bind (b_store_bytes b0 old_hash) (fun b1 => bind (b_store_bytes b1 new_hash) b_end_cell)).
