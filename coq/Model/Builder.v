(* boc/builder.py, boc/slice.py, the address part of boc/address.py, boc/tvm_bitarray.py.
   Definitions only.  Values: Z for Python ints, list N for bytes, list bool for bit strings. *)
From Coq Require Import NArith ZArith List Bool.
From PTQ Require Import Base.Result Base.Bytes Base.Bits Model.Cell Spec.CellRepr.
Import ListNotations.
Local Open Scope Z_scope.

(* ---------- bitarray.util.int2ba / ba2int ---------- *)
Definition int2ba (v : Z) (size : Z) (signed : bool) : result (list bool) :=
  if size <=? 0 then Err EValue
  else if signed then
    if (- 2 ^ (size - 1) <=? v) && (v <? 2 ^ (size - 1))
    then Ok (to_bits_signed (Z.to_nat size) v) else Err EOverflow
  else
    if (0 <=? v) && (v <? 2 ^ size) then Ok (to_bits (Z.to_nat size) (Z.to_N v)) else Err EOverflow.

Definition ba2int (l : list bool) (signed : bool) : result Z :=
  match l with
  | [] => Err EValue
  | _ => Ok (if signed then of_bits_signed l else Z.of_N (of_bits l))
  end.

(* ---------- Builder ---------- *)
Record builder := mkB { b_bits : list bool; b_refs : list cell }.
Definition b_empty : builder := mkB [] [].

(* TvmBitarray.extend / append / frombytes: check_overflow then grow *)
Definition b_store_bits (b : builder) (x : list bool) : result builder :=
  if (1023 <? length (b_bits b) + length x)%nat then Err EOverflow
  else Ok (mkB (b_bits b ++ x) (b_refs b)).
Definition b_store_bit (b : builder) (x : bool) : result builder := b_store_bits b [x].

Definition b_store_ref (b : builder) (c : cell) : result builder :=
  if (4 <=? length (b_refs b))%nat then Err EOther else Ok (mkB (b_bits b) (b_refs b ++ [c])).

Definition b_store_maybe_ref (b : builder) (c : option cell) : result builder :=
  match c with
  | None => b_store_bit b false
  | Some r => bind (b_store_bit b true) (fun b' => b_store_ref b' r)
  end.

Definition b_store_uint (b : builder) (v size : Z) : result builder :=
  bind (int2ba v size false) (b_store_bits b).
Definition b_store_int (b : builder) (v size : Z) : result builder :=
  bind (int2ba v size true) (b_store_bits b).

Definition zbit_length (v : Z) : Z := Z.of_N (N.size (Z.abs_N v)).   (* int.bit_length() *)
Definition ceil8 (n : Z) : Z := (n + 7) / 8.                           (* math.ceil(n / 8) *)

Definition b_store_var_uint (b : builder) (v bl : Z) : result builder :=
  if v =? 0 then b_store_uint b 0 bl
  else let byte_length := ceil8 (zbit_length v) in
       bind (b_store_uint b byte_length bl) (fun b' => b_store_uint b' v (byte_length * 8)).

Definition b_store_var_int (b : builder) (v bl : Z) : result builder :=
  if v =? 0 then b_store_uint b 0 bl
  else let byte_length := ceil8 (zbit_length (if 0 <=? v then v else - v - 1) + 1) in
       bind (b_store_uint b byte_length bl) (fun b' => b_store_int b' v (byte_length * 8)).

Definition b_store_coins (b : builder) (v : Z) : result builder := b_store_var_uint b v 4.

Definition b_store_bytes (b : builder) (bs : list N) : result builder := b_store_bits b (bytes_to_bits bs).
(* store_string: the argument is the UTF-8 encoding of the str *)
Definition b_store_string (b : builder) (bs : list N) : result builder :=
  if (127 <? length bs)%nat then Err EAssert else b_store_bytes b bs.

(* Cell construction from a builder: the only failure for an ordinary builder is the depth limit
   (Proofs/CellOrd.v: ord_hash_depth / ord_depth_limit) *)
Definition b_end_cell (b : builder) : result cell :=
  let c := Cell ty_ordinary (b_bits b) (b_refs b) in
  if (1024 <=? s_depth c)%N then Err ECell else Ok c.

Definition b_store_cell (b : builder) (c : cell) : result builder :=
  let 'Cell _ bits refs := c in
  if (4 <? length (b_refs b) + length refs)%nat then Err EOther
  else bind (b_store_bits b bits) (fun b' => Ok (mkB (b_bits b') (b_refs b' ++ refs))).

(* store_snake_bytes: fill the available whole bytes, continue in a fresh builder stored as a ref.
   fuel bounds the recursion; rl = Python frames still available (each level costs 2 frames:
   store_snake_bytes + the inner call chain is tail-shaped, measured by the harness) *)
Fixpoint b_store_snake (fuel : nat) (b : builder) (bs : list N) : result builder :=
  match fuel with
  | O => Err ERecursion
  | S f =>
    match bs with
    | [] => Ok b
    | _ =>
      let avail := ((1023 - length (b_bits b)) / 8)%nat in
      if (length bs <=? avail)%nat then b_store_bytes b bs
      else
        bind (b_store_bytes b (firstn avail bs)) (fun b1 =>
        bind (b_store_snake f b_empty (skipn avail bs)) (fun inner =>
        bind (b_end_cell inner) (fun c => b_store_ref b1 c)))
    end
  end.

(* ---------- addresses ---------- *)
Inductive addr :=
| AddrNone
| AddrExt (value : Z) (len : Z)                       (* ExternalAddress(value, len) *)
| AddrStd (anycast : option (Z * Z)) (wc : Z) (hash : list N).   (* Address, anycast = (depth, pfx) *)

Definition b_store_address (b : builder) (a : addr) : result builder :=
  match a with
  | AddrNone => b_store_bits b [false; false]
  | AddrExt v len =>
      (* ExternalAddress.to_cell() then store_cell *)
      bind (b_store_bits b_empty [false; true]) (fun t1 =>
      bind (b_store_uint t1 len 9) (fun t2 =>
      (* if self.len: store_uint(value, len) / elif value: raise OverflowError *)
      bind (if negb (len =? 0) then b_store_uint t2 v len
            else if negb (v =? 0) then Err EOverflow else Ok t2) (fun t3 =>
      bind (b_end_cell t3) (fun c => b_store_cell b c))))
  | AddrStd ac wc h =>
      bind (match ac with
            | None => b_store_bits b [true; false; false]
            | Some (depth, pfx) =>
                bind (b_store_bits b [true; false; true]) (fun b1 =>
                bind (b_store_uint b1 depth 5) (fun b2 => b_store_uint b2 pfx depth))
            end) (fun b3 =>
      bind (b_store_int b3 wc 8) (fun b4 => b_store_bytes b4 h))
  end.

(* ---------- Slice ---------- *)
Record slice := mkS { s_bits : list bool; s_refs : list cell }.   (* remaining bits / remaining refs *)
Definition begin_parse (c : cell) : slice := let 'Cell _ bits refs := c in mkS bits refs.

(* del self.bits[:n] on a TvmBitarray: check_underflow(n) *)
Definition s_skip (s : slice) (n : nat) : result slice :=
  if (length (s_bits s) <? n)%nat then Err EUnderflow else Ok (mkS (skipn n (s_bits s)) (s_refs s)).

Definition s_preload_bit (s : slice) : result bool :=
  match s_bits s with [] => Err EIndex | x :: _ => Ok x end.
Definition s_load_bit (s : slice) : result (bool * slice) :=
  bind (s_preload_bit s) (fun x => bind (s_skip s 1) (fun s' => Ok (x, s'))).

Definition s_preload_bits (s : slice) (n : nat) : list bool := firstn n (s_bits s).
Definition s_load_bits (s : slice) (n : nat) : result (list bool * slice) :=
  bind (s_skip s n) (fun s' => Ok (s_preload_bits s n, s')).

Definition s_preload_uint (s : slice) (n : nat) : result Z := ba2int (firstn n (s_bits s)) false.
Definition s_load_uint (s : slice) (n : nat) : result (Z * slice) :=
  bind (s_preload_uint s n) (fun v => bind (s_skip s n) (fun s' => Ok (v, s'))).
Definition s_preload_int (s : slice) (n : nat) : result Z := ba2int (firstn n (s_bits s)) true.
Definition s_load_int (s : slice) (n : nat) : result (Z * slice) :=
  bind (s_preload_int s n) (fun v => bind (s_skip s n) (fun s' => Ok (v, s'))).

Definition s_preload_bytes (s : slice) (n : nat) : list N := bits_to_bytes (firstn (n * 8) (s_bits s)).
Definition s_load_bytes (s : slice) (n : nat) : result (list N * slice) :=
  bind (s_skip s (n * 8)) (fun s' => Ok (s_preload_bytes s n, s')).

Definition s_load_var (signed : bool) (s : slice) (bl : nat) : result (Z * slice) :=
  bind (s_load_uint s bl) (fun '(len, s1) =>
  if len =? 0 then Ok (0, s1)
  else if signed then s_load_int s1 (Z.to_nat len * 8) else s_load_uint s1 (Z.to_nat len * 8)).
Definition s_load_var_uint := s_load_var false.
Definition s_load_var_int := s_load_var true.
Definition s_load_coins (s : slice) := s_load_var_uint s 4.

(* preload_var_uint / preload_var_int / preload_coins: separate code paths in slice.py *)
Definition s_preload_var (signed : bool) (s : slice) (bl : nat) : result Z :=
  bind (s_preload_uint s bl) (fun len =>
  if len =? 0 then Ok 0
  else ba2int (skipn bl (firstn (bl + Z.to_nat len * 8) (s_bits s))) signed).

Definition s_load_ref (s : slice) : result (cell * slice) :=
  match s_refs s with [] => Err EIndex | r :: rs => Ok (r, mkS (s_bits s) rs) end.
Definition s_load_maybe_ref (s : slice) : result (option cell * slice) :=
  bind (s_load_bit s) (fun '(x, s1) =>
  if x then bind (s_load_ref s1) (fun '(r, s2) => Ok (Some r, s2)) else Ok (None, s1)).
Definition s_preload_maybe_ref (s : slice) : result (option cell) :=
  bind (s_preload_bit s) (fun x =>
  if x then match s_refs s with [] => Err EIndex | r :: _ => Ok (Some r) end else Ok None).

Definition s_load_address (s : slice) : result (addr * slice) :=
  bind (s_load_uint s 2) (fun '(tag, s1) =>
  if tag =? 0 then Ok (AddrNone, s1)
  else if tag =? 1 then
    bind (s_load_uint s1 9) (fun '(len, s2) =>
    (* ExternalAddress(self.load_uint(len_) if len_ else 0, len_) *)
    bind (if negb (len =? 0) then s_load_uint s2 (Z.to_nat len) else Ok (0, s2))
         (fun '(v, s3) => Ok (AddrExt v len, s3)))
  else
    bind (s_load_bit s1) (fun '(anyc, s2) =>
    bind (if anyc then
            bind (s_load_uint s2 5) (fun '(depth, s3) =>
            if depth <? 1 then Err EOther
            else bind (s_load_uint s3 (Z.to_nat depth)) (fun '(pfx, s4) => Ok (Some (depth, pfx), s4)))
          else Ok (None, s2)) (fun '(ac, s5) =>
    if tag =? 2 then
      bind (s_load_int s5 8) (fun '(wc, s6) =>
      bind (s_load_bytes s6 32) (fun '(h, s7) => Ok (AddrStd ac wc h, s7)))
    else Err EOther))).
(* preload_address = self.copy().load_address() *)
Definition s_preload_address (s : slice) : result addr := rmap fst (s_load_address s).

(* load_snake_bytes *)
Fixpoint s_load_snake (fuel : nat) (s : slice) : result (list N) :=
  match fuel with
  | O => Err ERecursion
  | S f =>
    if negb (length (s_bits s) mod 8 =? 0)%nat then Err EAssert
    else match s_refs s with
         | [] => Ok (s_preload_bytes s (length (s_bits s) / 8))
         | [r] => bind (s_load_snake f (begin_parse r)) (fun rest =>
                  Ok (s_preload_bytes s (length (s_bits s) / 8) ++ rest))
         | _ => Err EAssert
         end
  end.

(* Slice.to_cell / Builder.to_slice / Cell.to_builder / store_slice *)
Definition s_to_cell (s : slice) : result cell :=
  let c := Cell ty_ordinary (s_bits s) (s_refs s) in
  if (1024 <=? s_depth c)%N then Err ECell else Ok c.
Definition b_store_slice (b : builder) (s : slice) : result builder :=
  if (4 <? length (b_refs b) + length (s_refs s))%nat then Err EOther
  else bind (b_store_bits b (s_bits s)) (fun b' => Ok (mkB (b_bits b') (b_refs b' ++ s_refs s))).
