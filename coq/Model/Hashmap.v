(* boc/hashmap/utils.py (tree building, label writing), boc/hashmap/parse.py (label and node parsing,
   plain and augmented), the HashmapE wrappers of builder.py / slice.py.  Definitions only.
   Keys are bit strings (the zero-padded binary form of the integer key), values are payloads
   (bits, refs) written by the value serialiser; dictionaries are association lists in Python dict
   insertion order. *)
From Coq Require Import NArith ZArith List Bool.
From PTQ Require Import Base.Result Base.Bytes Base.Bits Model.Cell Model.Builder.
Import ListNotations.

(* a Python loop of store_bit_int calls *)
Fixpoint b_store_bits_each (b : builder) (l : list bool) : result builder :=
  match l with [] => Ok b | x :: r => bind (b_store_bit b x) (fun b' => b_store_bits_each b' r) end.
Fixpoint bits_eqb (a b : list bool) : bool :=
  match a, b with
  | [], [] => true
  | x :: a', y :: b' => Bool.eqb x y && bits_eqb a' b'
  | _, _ => false
  end.

Definition payload := (list bool * list cell)%type.
Definition kvs := list (list bool * payload).

(* ---------------- utils.py: build_tree ---------------- *)
Fixpoint lex_leb (a b : list bool) : bool :=      (* Python str <= on '0'/'1' strings *)
  match a, b with
  | [], _ => true
  | _ :: _, [] => false
  | x :: a', y :: b' => if Bool.eqb x y then lex_leb a' b' else negb x
  end.
Definition lex_min (a b : list bool) := if lex_leb a b then a else b.
Definition lex_max (a b : list bool) := if lex_leb a b then b else a.

Fixpoint lcp (a b : list bool) : list bool :=
  match a, b with
  | x :: a', y :: b' => if Bool.eqb x y then x :: lcp a' b' else []
  | _, _ => []
  end.

(* find_common_prefix: '' for no key, the key itself for one key, otherwise the common prefix of
   sorted(src)[0] and sorted(src)[-1] *)
Definition find_common_prefix (keys : list (list bool)) : list bool :=
  match keys with
  | [] => []
  | [k] => k
  | k :: rest => lcp (fold_left lex_min rest k) (fold_left lex_max rest k)
  end.

Definition remove_prefix_map (src : kvs) (n : nat) : kvs := map (fun kv => (skipn n (fst kv), snd kv)) src.

(* fork_map: k.find('0') == 0 goes left, everything else (incl. the empty key) right *)
Definition fork_left (src : kvs) : kvs :=
  flat_map (fun kv => match fst kv with false :: r => [(r, snd kv)] | _ => [] end) src.
Definition fork_right (src : kvs) : kvs :=
  flat_map (fun kv => match fst kv with false :: _ => [] | _ :: r => [(r, snd kv)] | [] => [([], snd kv)] end) src.

Inductive hnode := HLeaf (v : payload) | HFork (l r : hedge)
with hedge := HEdge (label : list bool) (node : hnode).

(* build_edge / build_node; fuel = remaining key length + 1 *)
Fixpoint build_edge (fuel : nat) (src : kvs) : result hedge :=
  match fuel with
  | O => Err ERecursion
  | S f =>
    match src with
    | [] => Err EAssert
    | _ =>
      let label := find_common_prefix (map fst src) in
      let src' := remove_prefix_map src (length label) in
      match src' with
      | [] => Err EAssert
      | [kv] => Ok (HEdge label (HLeaf (snd kv)))
      | _ =>
        let l := fork_left src' in
        let r := fork_right src' in
        match l, r with
        | [], _ | _, [] => Err EAssert
        | _, _ =>
          bind (build_edge f l) (fun el => bind (build_edge f r) (fun er => Ok (HEdge label (HFork el er))))
        end
      end
    end
  end.

(* ---------------- utils.py: labels ---------------- *)
Definition nbitlen (m : nat) : nat := N.to_nat (N.size (N.of_nat m)).     (* int.bit_length() *)
Definition label_short_length (n : nat) : nat := 1 + n + 1 + n.
Definition label_long_length (n m : nat) : nat := 1 + 1 + nbitlen m + n.
Definition label_same_length (m : nat) : nat := 1 + 1 + 1 + nbitlen m.

Definition is_same (l : list bool) : bool :=
  match l with [] => true | x :: r => forallb (Bool.eqb x) r end.

Inductive lkind := KShort | KLong | KSame.
Definition detect_label_type (l : list bool) (m : nat) : lkind :=
  let n := length l in
  let k1 := KShort in let len1 := label_short_length n in
  let long_len := label_long_length n m in
  let '(k2, len2) := if (long_len <? len1)%nat then (KLong, long_len) else (k1, len1) in
  if is_same l then
    let same_len := label_same_length m in
    if (same_len <? len2)%nat then KSame else k2
  else k2.

Definition store_uint_nat (b : builder) (v w : nat) : result builder :=
  b_store_uint b (Z.of_nat v) (Z.of_nat w).

Definition write_label (l : list bool) (m : nat) (b : builder) : result builder :=
  match detect_label_type l m with
  | KShort =>
      bind (b_store_bit b false) (fun b1 =>
      bind (b_store_bits_each b1 (repeat true (length l))) (fun b2 =>
      bind (b_store_bit b2 false) (fun b3 => b_store_bits_each b3 l)))
  | KLong =>
      bind (b_store_bit b true) (fun b1 =>
      bind (b_store_bit b1 false) (fun b2 =>
      bind (store_uint_nat b2 (length l) (nbitlen m)) (fun b3 => b_store_bits_each b3 l)))
  | KSame =>
      bind (b_store_bit b true) (fun b1 =>
      bind (b_store_bit b1 true) (fun b2 =>
      bind (b_store_bit b2 (hd false l)) (fun b3 => store_uint_nat b3 (length l) (nbitlen m))))
  end.

(* write_node / write_edge; the value serialiser appends the payload like store_slice does *)
Definition store_payload (b : builder) (v : payload) : result builder :=
  b_store_slice b (mkS (fst v) (snd v)).

Fixpoint write_edge (e : hedge) (m : nat) (b : builder) : result builder :=
  let 'HEdge label node := e in
  bind (write_label label m b) (fun b1 =>
  let m' := (m - length label)%nat in
  match node with
  | HLeaf v => store_payload b1 v
  | HFork l r =>
      bind (write_edge l (m' - 1) b_empty) (fun bl =>
      bind (write_edge r (m' - 1) b_empty) (fun br =>
      bind (b_end_cell bl) (fun cl =>
      bind (b_end_cell br) (fun cr =>
      bind (b_store_ref b1 cl) (fun b2 => b_store_ref b2 cr)))))
  end).

(* HashMap.serialize: None for the empty map *)
Definition serialize_dict (src : kvs) (n : nat) : result (option cell) :=
  match src with
  | [] => Ok None
  | _ => bind (build_edge (S n) src) (fun t =>
         bind (write_edge t n b_empty) (fun b => rmap Some (b_end_cell b)))
  end.

(* HashMap.set_int_key on an insertion sequence: range check, last write wins, first position kept *)
Definition key_bits (n : nat) (k : Z) : result (list bool) :=
  if (k <? 0)%Z || (Z.of_nat n <? zbit_length k)%Z then Err EDict else Ok (to_bits n (Z.to_N k)).
Fixpoint dict_set (d : kvs) (k : list bool) (v : payload) : kvs :=
  match d with
  | [] => [(k, v)]
  | (k', v') :: r => if bits_eqb k' k then (k', v) :: r else (k', v') :: dict_set r k v
  end.

(* ---------------- parse.py ---------------- *)
Fixpoint deserialize_unary (fuel : nat) (s : slice) : result (nat * slice) :=
  match fuel with
  | O => Err EFuel
  | S f => bind (s_load_bit s) (fun '(x, s1) =>
           if x then bind (deserialize_unary f s1) (fun '(n, s2) => Ok (S n, s2)) else Ok (O, s1))
  end.

(* deserialize_hml: (n, label bits, rest) *)
Definition deserialize_hml (s : slice) (m : Z) : result (nat * list bool * slice) :=
  bind (s_load_bit s) (fun '(k, s1) =>
  if k then
    bind (s_load_bit s1) (fun '(k2, s2) =>
    let l := Z.to_nat (zbit_length m) in
    if k2 then (* same *)
      bind (s_load_bit s2) (fun '(v, s3) =>
      bind (if (l =? 0)%nat then Ok (0%Z, s3) else s_load_uint s3 l) (fun '(n, s4) =>
      Ok (Z.to_nat n, repeat v (Z.to_nat n), s4)))
    else (* long *)
      bind (if (l =? 0)%nat then Ok (0%Z, s2) else s_load_uint s2 l) (fun '(n, s3) =>
      bind (s_load_bits s3 (Z.to_nat n)) (fun '(bits, s4) => Ok (Z.to_nat n, bits, s4))))
  else (* short *)
    bind (deserialize_unary (S (length (s_bits s1))) s1) (fun '(n, s2) =>
    bind (s_load_bits s2 n) (fun '(bits, s3) => Ok (n, bits, s3)))).

(* parse / deserialize_hashmap_node over the cell tree; returns leaves in traversal order as
   (key bits, remaining slice of the leaf cell).  A non-ordinary cell contributes nothing. *)
Definition leaves := list (list bool * slice).

Fixpoint parse_edge (fuel : nat) (ty : Z) (s : slice) (m : Z) (prefix : list bool) : result leaves :=
  match fuel with
  | O => Err ERecursion
  | S f =>
    bind (deserialize_hml s m) (fun '(l, suffix, s1) =>
    if (m <? Z.of_nat l)%Z then Err EValue else      (* label longer than the remaining key *)
    let prefix' := prefix ++ suffix in
    let m' := (m - Z.of_nat l)%Z in
    if negb (ty =? ty_ordinary)%Z then Ok []
    else if (m' =? 0)%Z then
      match prefix' with [] => Ok [] | _ => Ok [(prefix', s1)] end
    else
      bind (s_load_ref s1) (fun '(c0, s2) =>
      let 'Cell ty0 bits0 refs0 := c0 in
      bind (parse_edge f ty0 (mkS bits0 refs0) (m' - 1) (prefix' ++ [false])) (fun ls =>
      bind (s_load_ref s2) (fun '(c1, _) =>
      let 'Cell ty1 bits1 refs1 := c1 in
      bind (parse_edge f ty1 (mkS bits1 refs1) (m' - 1) (prefix' ++ [true])) (fun rs =>
      Ok (ls ++ rs))))))
  end.

Definition parse_fuel : nat := 1100.

(* parse_hashmap(dict_cell_slice, key_len): dict str -> Slice; later duplicates overwrite (dict semantics
   are applied by the caller; a valid tree has no duplicates) *)
Definition parse_hashmap (ty : Z) (s : slice) (n : Z) : result leaves := parse_edge parse_fuel ty s n [].

(* HashMap.parse: None for a non-ordinary dictionary cell *)
Definition hashmap_parse (ty : Z) (s : slice) (n : Z) : result (option leaves) :=
  if negb (ty =? ty_ordinary)%Z then Ok None else rmap Some (parse_hashmap ty s n).

(* Slice.load_dict: Maybe ^Hashmap *)
Definition s_load_dict (s : slice) (n : Z) : result (option leaves * slice) :=
  bind (s_load_bit s) (fun '(x, s1) =>
  if x then
    bind (s_load_ref s1) (fun '(c, s2) =>
    let 'Cell ty bits refs := c in
    bind (hashmap_parse ty (mkS bits refs) n) (fun r => Ok (r, s2)))
  else Ok (None, s1)).

(* ---- augmented: parse_aug / deserialize_hashmap_aug_node; x/y deserialisers are modelled as
   "y consumes ylen bits, x takes the rest": extras in post-order (left, right, node) ---- *)
Definition aleaves := list (list bool * slice).
Fixpoint parse_aug_edge (fuel : nat) (ylen : nat) (ty : Z) (s : slice) (m : Z) (prefix : list bool)
  : result (aleaves * list (list bool)) :=
  match fuel with
  | O => Err ERecursion
  | S f =>
    if negb (ty =? ty_ordinary)%Z then Ok ([], [])
    else
    bind (deserialize_hml s m) (fun '(l, suffix, s1) =>
    if (m <? Z.of_nat l)%Z then Err EValue else      (* label longer than the remaining key *)
    let prefix' := prefix ++ suffix in
    let m' := (m - Z.of_nat l)%Z in
    if (m' =? 0)%Z then
      bind (s_load_bits s1 ylen) (fun '(y, s2) => Ok ([(prefix', s2)], [y]))
    else
      bind (s_load_ref s1) (fun '(c0, s2) =>
      let 'Cell ty0 bits0 refs0 := c0 in
      bind (parse_aug_edge f ylen ty0 (mkS bits0 refs0) (m' - 1) (prefix' ++ [false])) (fun '(ls, le) =>
      bind (s_load_ref s2) (fun '(c1, s3) =>
      let 'Cell ty1 bits1 refs1 := c1 in
      bind (parse_aug_edge f ylen ty1 (mkS bits1 refs1) (m' - 1) (prefix' ++ [true])) (fun '(rs, re) =>
      bind (s_load_bits s3 ylen) (fun '(y, _) =>
      Ok (ls ++ rs, le ++ re ++ [y])))))))
  end.
