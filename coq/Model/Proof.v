(* proof/check_proof.py: check_proof, check_block_header_proof, and the hash comparisons of
   check_account_proof (the TL-B walk that locates the ShardAccount cell is not modelled here: the
   located cell is an argument). *)
From Coq Require Import NArith ZArith List Bool.
From PTQ Require Import Base.Result Base.Bytes Base.Bits Model.Cell.
Import ListNotations.
Local Open Scope N_scope.

(* Cell.__getitem__ *)
Definition k_ref (k : kcell) (i : nat) : result kcell :=
  match nth_error (k_refs k) i with Some r => Ok r | None => Err EIndex end.
(* Cell.data *)
Definition k_data (k : kcell) : list N := data_bytes (k_bits k).

Definition check_proof (c : kcell) (hash_ : list N) : result unit :=
  if negb (k_ty c =? ty_mproof)%Z then Err EProof
  else if negb (bytes_eqb (slice (k_data c) 1 33) hash_) then Err EProof
  else bind (k_ref c 0) (fun r =>
       bind (get_hash r 0) (fun h => if bytes_eqb h hash_ then Ok tt else Err EProof)).

(* check_block_header_proof(root_cell, block_hash, store_state_hash) *)
Definition check_block_header_proof (root : kcell) (block_hash : list N) (store : bool)
  : result (option (list N)) :=
  bind (get_hash root 0) (fun h =>
  if negb (bytes_eqb h block_hash) then Err EProof
  else if store then
    bind (k_ref root 2) (fun su => bind (k_ref su 1) (fun ns => rmap Some (get_hash ns 0)))
  else Ok None).

(* check_account_proof after Cell.from_boc and up to the TL-B walk:
   block_proof = proof_cells[0], state_proof = proof_cells[1], shard_account_cell = the located
   ShardAccount cell (account:^Account ...), claimed = account_state_root *)
Definition check_account_hashes (block_proof state_proof shard_account_cell claimed : kcell)
           (block_root_hash : list N) : result unit :=
  bind (k_ref block_proof 0) (fun blk =>
  bind (check_block_header_proof blk block_root_hash true) (fun osh =>
  match osh with
  | None => Err EOther
  | Some state_hash =>
      bind (k_ref state_proof 0) (fun st =>
      bind (get_hash st 0) (fun sh =>
      if negb (bytes_eqb sh state_hash) then Err EProof
      else
        bind (k_ref shard_account_cell 0) (fun acc =>
        bind (get_hash acc 0) (fun committed =>
        if negb (bytes_eqb committed (k_hash claimed)) then Err EProof else Ok tt))))
  end)).
