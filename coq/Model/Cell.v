(* boc/cell.py + boc/exotic.py: level masks, descriptors, data padding, the per-level hash loop,
   get_hash / get_depth, equality and __hash__.  Definitions only. *)
From Coq Require Import NArith ZArith List Bool.
From PTQ Require Import Base.Result Base.Bytes Base.Bits Base.Sha256.
Import ListNotations.
Local Open Scope N_scope.

(* the abstract tree a caller builds: type, data bits, references *)
Inductive cell := Cell (ty : Z) (bits : list bool) (refs : list cell).

(* a constructed Python Cell object: the tree plus what __init__ caches *)
Inductive kcell :=
  KCell (ty : Z) (bits : list bool) (refs : list kcell)
        (mask : N) (hashes : list (list N)) (depths : list N).

Definition k_ty (k : kcell) := let 'KCell t _ _ _ _ _ := k in t.
Definition k_bits (k : kcell) := let 'KCell _ b _ _ _ _ := k in b.
Definition k_refs (k : kcell) := let 'KCell _ _ r _ _ _ := k in r.
Definition k_mask (k : kcell) := let 'KCell _ _ _ m _ _ := k in m.
Definition k_hashes (k : kcell) := let 'KCell _ _ _ _ h _ := k in h.
Definition k_depths (k : kcell) := let 'KCell _ _ _ _ _ d := k in d.

Definition ty_ordinary : Z := (-1)%Z.
Definition ty_pruned : Z := 1%Z.
Definition ty_library : Z := 2%Z.
Definition ty_mproof : Z := 3%Z.
Definition ty_mupdate : Z := 4%Z.

(* ---- exotic.py: LevelMask ---- *)
Definition lm_level (m : N) : N := bit_length m.
Definition lm_hash_index (m : N) : N := popcount m.
Definition lm_apply (m l : N) : N := N.land m (N.shiftl 1 l - 1).
Definition lm_significant (m l : N) : bool := (l =? 0) || N.odd (N.shiftr m (l - 1)).

(* ---- descriptors and data ---- *)
Definition to_byte1 (n : N) : result N := if n <? 256 then Ok n else Err EOverflow.
Definition to_bytes2 (n : N) : result (list N) := if n <? 65536 then Ok (be_bytes 2 n) else Err EOverflow.

Definition refs_descriptor (nrefs : nat) (exotic : bool) (mask : N) : result N :=
  to_byte1 (N.of_nat nrefs + 8 * b2n exotic + 32 * mask).
Definition bits_descriptor (blen : nat) : result N :=
  to_byte1 (2 * N.of_nat (blen / 8) + (if (blen mod 8 =? 0)%nat then 0 else 1)).

(* get_data_bytes on a TvmBitarray: copy, append the completion tag, fill, tobytes *)
Definition data_bytes (bits : list bool) : list N :=
  if (length bits mod 8 =? 0)%nat then bits_to_bytes bits else bits_to_bytes (bits ++ [true]).

Definition nth_res {A} (l : list A) (i : N) : result A :=
  match nth_error l (N.to_nat i) with Some x => Ok x | None => Err EIndex end.

Definition is_exotic (ty : Z) : bool := negb (ty =? ty_ordinary)%Z.
Definition is_merkle (ty : Z) : bool := (ty =? ty_mproof)%Z || (ty =? ty_mupdate)%Z.

(* ---- Cell.get_depth / Cell.get_hash (on an already constructed cell) ---- *)
Definition get_depth (r : kcell) (lvl : N) : result N :=
  let hash_index := lm_hash_index (lm_apply (k_mask r) lvl) in
  if (k_ty r =? ty_pruned)%Z then
    let phi := lm_hash_index (k_mask r) in
    if negb (hash_index =? phi) then
      let off := N.to_nat (2 + 32 * phi + hash_index * 2) in
      Ok (of_be (slice (data_bytes (k_bits r)) off (off + 2)))
    else nth_res (k_depths r) 0
  else nth_res (k_depths r) hash_index.

Definition get_hash (r : kcell) (lvl : N) : result (list N) :=
  let hash_index := lm_hash_index (lm_apply (k_mask r) lvl) in
  if (k_ty r =? ty_pruned)%Z then
    let phi := lm_hash_index (k_mask r) in
    if negb (hash_index =? phi) then
      Ok (slice (data_bytes (k_bits r)) (N.to_nat (2 + hash_index * 32)) (N.to_nat (2 + (hash_index + 1) * 32)))
    else nth_res (k_hashes r) 0
  else nth_res (k_hashes r) hash_index.

(* ---- Cell.resolve_mask ---- *)
Definition resolve_mask (ty : Z) (bits : list bool) (refs : list kcell) : result N :=
  if (ty =? ty_ordinary)%Z then Ok (fold_left (fun m r => N.lor m (k_mask r)) refs 0)
  else if (ty =? ty_pruned)%Z then
    match refs with
    | _ :: _ => Err ECell
    | [] => match slice bits 8 16 with [] => Err EValue | s => Ok (of_bits s) end
    end
  else if (ty =? ty_mproof)%Z then
    match refs with r0 :: _ => Ok (N.shiftr (k_mask r0) 1) | [] => Err EIndex end
  else if (ty =? ty_mupdate)%Z then
    match refs with
    | r0 :: r1 :: _ => Ok (N.shiftr (N.lor (k_mask r0) (k_mask r1)) 1)
    | _ => Err EIndex
    end
  else if (ty =? ty_library)%Z then Ok 0
  else Err ECell.

(* ---- Cell.calculate_hashes: one iteration of `for li in range(0, level + 1)` ---- *)
Definition hstate := (N * list (list N) * list N)%type.   (* hash_index, _hashes, _depths *)

Section HashLoop.
  Variable H : list N -> list N.

  Definition hash_step (ty : Z) (bits : list bool) (refs : list kcell) (mask offset : N)
             (st : hstate) (li : N) : result hstate :=
    let '(hi, hs, ds) := st in
    if negb (lm_significant mask li) then Ok st
    else if hi <? offset then Ok (hi + 1, hs, ds)
    else
      bind (refs_descriptor (length refs) (is_exotic ty) (lm_apply mask li)) (fun d1 =>
      bind (bits_descriptor (length bits)) (fun d2 =>
      bind (if hi =? offset then
              (if negb (li =? 0) && negb (ty =? ty_pruned)%Z then Err ECell else Ok (data_bytes bits))
            else
              (if (li =? 0) || (ty =? ty_pruned)%Z then Err ECell else nth_res hs (hi - offset - 1)))
           (fun payload =>
      let lvl := if is_merkle ty then li + 1 else li in
      bind (mapM (fun r => get_depth r lvl) refs) (fun rds =>
      bind (mapM to_bytes2 rds) (fun dbytes =>
      let dmax := fold_left N.max rds 0 in
      bind (match refs with
            | [] => Ok 0
            | _ => if 1024 <=? dmax + 1 then Err ECell else Ok (dmax + 1)
            end) (fun depth =>
      bind (mapM (fun r => get_hash r lvl) refs) (fun rhs =>
      Ok (hi + 1, hs ++ [H ([d1; d2] ++ payload ++ concat dbytes ++ concat rhs)], ds ++ [depth])))))))).

  Fixpoint foldM {A B} (f : A -> B -> result A) (l : list B) (a : A) : result A :=
    match l with [] => Ok a | x :: r => bind (f a x) (foldM f r) end.

  Fixpoint seqN (start : N) (len : nat) : list N :=
    match len with O => [] | S n => start :: seqN (start + 1) n end.

  (* Cell.__init__ *)
  Definition mk_cell (ty : Z) (bits : list bool) (refs : list kcell) : result kcell :=
    bind (resolve_mask ty bits refs) (fun mask =>
    let total := lm_hash_index mask + 1 in
    let hash_count := if (ty =? ty_pruned)%Z then 1 else total in
    let offset := total - hash_count in
    let level := lm_level mask in
    bind (foldM (hash_step ty bits refs mask offset) (seqN 0 (N.to_nat level + 1)) (0, [], []))
         (fun st => let '(_, hs, ds) := st in
    bind (refs_descriptor (length refs) (is_exotic ty) mask) (fun _ =>
    bind (bits_descriptor (length bits)) (fun _ =>
    match hs with
    | [] => Err EIndex
    | _ => Ok (KCell ty bits refs mask hs ds)
    end)))).

  Fixpoint mapM' {A B} (f : A -> result B) (l : list A) : result (list B) :=
    match l with
    | [] => Ok []
    | x :: xs => bind (f x) (fun y => bind (mapM' f xs) (fun ys => Ok (y :: ys)))
    end.

  (* building a whole tree bottom-up, children left to right *)
  Fixpoint build (c : cell) : result kcell :=
    let 'Cell ty bits refs := c in
    bind ((fix go (l : list cell) : result (list kcell) :=
             match l with
             | [] => Ok []
             | x :: xs => bind (build x) (fun y => bind (go xs) (fun ys => Ok (y :: ys)))
             end) refs)
         (fun krefs => mk_cell ty bits krefs).

  (* Cell.hash = self._hashes[-1] *)
  Definition k_hash (k : kcell) : list N := last (k_hashes k) [].
  (* Cell.__eq__ and Cell.__hash__ *)
  Definition bytes_eqb (a b : list N) : bool :=
    (length a =? length b)%nat && forallb (fun p => fst p =? snd p) (combine a b).
  Definition cell_eqb (a b : kcell) : bool := bytes_eqb (k_hash a) (k_hash b).
  Definition cell_pyhash (a : kcell) : N := of_be (k_hash a).

  (* Cell.get_representation / calculate_representation_hash: `data = self._hashes[-2] if len(self._hashes) > 1
     else self._data_bytes` (a cell of non-zero level chains on the previous level's hash) *)
  Definition repr_payload (k : kcell) : list N :=
    match rev (k_hashes k) with
    | _ :: prev :: _ => prev
    | _ => data_bytes (k_bits k)
    end.
  Definition get_representation (k : kcell) : result (list N) :=
    bind (refs_descriptor (length (k_refs k)) (is_exotic (k_ty k)) (k_mask k)) (fun d1 =>
    bind (bits_descriptor (length (k_bits k))) (fun d2 =>
    bind (mapM (fun r => match k_depths r with
                         | [] => Err EIndex
                         | ds => to_bytes2 (last ds 0)
                         end) (k_refs k)) (fun ds =>
    Ok ([d1; d2] ++ repr_payload k ++ concat ds ++ concat (map k_hash (k_refs k)))))).
  Definition calculate_representation_hash (k : kcell) : result (list N) :=
    rmap H (get_representation k).
End HashLoop.
