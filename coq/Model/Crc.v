(* crypto/crc.py: the loop bodies, tables and constants come from Gen/CrcTables.v,
   regenerated from the source on every run. *)
From Coq Require Import NArith List.
From PTQ Require Import Base.Bytes Gen.CrcTables.
Import ListNotations.
Local Open Scope N_scope.

Definition crc16_reg (bs : list N) : N := crc16_final (fold_left crc16_step bs crc16_init).
Definition crc16 (bs : list N) : list N :=
  (if crc16_order_big then be_bytes else le_bytes) crc16_outlen (crc16_reg bs).

Definition crc32c_reg (bs : list N) : N := crc32c_final (fold_left crc32c_step bs crc32c_init).
(* byteorder parameter: big = true / little = false (the Python default) *)
Definition crc32c (bs : list N) (big : bool) : list N :=
  let big' := if crc32c_order_is_param then big else crc32c_order_big in
  (if big' then be_bytes else le_bytes) crc32c_outlen (crc32c_reg bs).
