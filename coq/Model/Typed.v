(* A heterogeneous list of typed values stored with a Builder and loaded back with a Slice:
   the statement vehicle of C06 (store_all / load_all) and the op language of C07. *)
From Coq Require Import NArith ZArith List Bool.
From PTQ Require Import Base.Result Base.Bytes Base.Bits Model.Cell Model.Builder.
Import ListNotations.
Local Open Scope Z_scope.

Inductive tval :=
| VUint (w : Z) (v : Z) | VInt (w : Z) (v : Z)
| VVarUint (k : Z) (v : Z) | VVarInt (k : Z) (v : Z) | VCoins (v : Z)
| VBit (b : bool) | VBits (l : list bool) | VBytes (bs : list N)
| VRef (c : cell) | VMaybeRef (oc : option cell) | VAddr (a : addr).

(* what a reader must know to load the value back *)
Inductive ttype :=
| TUint (w : Z) | TInt (w : Z) | TVarUint (k : Z) | TVarInt (k : Z) | TCoins
| TBit | TBits (n : nat) | TBytes (n : nat) | TRef | TMaybeRef | TAddr.

Definition ty_of (x : tval) : ttype :=
  match x with
  | VUint w _ => TUint w | VInt w _ => TInt w | VVarUint k _ => TVarUint k | VVarInt k _ => TVarInt k
  | VCoins _ => TCoins | VBit _ => TBit | VBits l => TBits (length l) | VBytes bs => TBytes (length bs)
  | VRef _ => TRef | VMaybeRef _ => TMaybeRef | VAddr _ => TAddr
  end.

Definition store1 (b : builder) (x : tval) : result builder :=
  match x with
  | VUint w v => b_store_uint b v w
  | VInt w v => b_store_int b v w
  | VVarUint k v => b_store_var_uint b v k
  | VVarInt k v => b_store_var_int b v k
  | VCoins v => b_store_coins b v
  | VBit x => b_store_bit b x
  | VBits l => b_store_bits b l
  | VBytes bs => b_store_bytes b bs
  | VRef c => b_store_ref b c
  | VMaybeRef oc => b_store_maybe_ref b oc
  | VAddr a => b_store_address b a
  end.

Definition load1 (s : slice) (t : ttype) : result (tval * slice) :=
  match t with
  | TUint w => rmap (fun '(v, s') => (VUint w v, s')) (s_load_uint s (Z.to_nat w))
  | TInt w => rmap (fun '(v, s') => (VInt w v, s')) (s_load_int s (Z.to_nat w))
  | TVarUint k => rmap (fun '(v, s') => (VVarUint k v, s')) (s_load_var_uint s (Z.to_nat k))
  | TVarInt k => rmap (fun '(v, s') => (VVarInt k v, s')) (s_load_var_int s (Z.to_nat k))
  | TCoins => rmap (fun '(v, s') => (VCoins v, s')) (s_load_coins s)
  | TBit => rmap (fun '(v, s') => (VBit v, s')) (s_load_bit s)
  | TBits n => rmap (fun '(v, s') => (VBits v, s')) (s_load_bits s n)
  | TBytes n => rmap (fun '(v, s') => (VBytes v, s')) (s_load_bytes s n)
  | TRef => rmap (fun '(v, s') => (VRef v, s')) (s_load_ref s)
  | TMaybeRef => rmap (fun '(v, s') => (VMaybeRef v, s')) (s_load_maybe_ref s)
  | TAddr => rmap (fun '(v, s') => (VAddr v, s')) (s_load_address s)
  end.

(* the non-consuming counterpart of each load *)
Definition preload1 (s : slice) (t : ttype) : result tval :=
  match t with
  | TUint w => rmap (VUint w) (s_preload_uint s (Z.to_nat w))
  | TInt w => rmap (VInt w) (s_preload_int s (Z.to_nat w))
  | TVarUint k => rmap (VVarUint k) (s_preload_var false s (Z.to_nat k))
  | TVarInt k => rmap (VVarInt k) (s_preload_var true s (Z.to_nat k))
  | TCoins => rmap VCoins (s_preload_var false s 4)
  | TBit => rmap VBit (s_preload_bit s)
  | TBits n => Ok (VBits (s_preload_bits s n))
  | TBytes n => Ok (VBytes (s_preload_bytes s n))
  | TRef => match s_refs s with [] => Err EIndex | r :: _ => Ok (VRef r) end
  | TMaybeRef => rmap VMaybeRef (s_preload_maybe_ref s)
  | TAddr => rmap VAddr (s_preload_address s)
  end.

Fixpoint store_all (b : builder) (vs : list tval) : result builder :=
  match vs with [] => Ok b | x :: r => bind (store1 b x) (fun b' => store_all b' r) end.

Fixpoint load_all (s : slice) (ts : list ttype) : result (list tval * slice) :=
  match ts with
  | [] => Ok ([], s)
  | t :: r => bind (load1 s t) (fun '(v, s') => bind (load_all s' r) (fun '(vs, s'') => Ok (v :: vs, s'')))
  end.
