(* tl/generator.py: TlSchemas.serialize_field / serialize / deserialize, generic in the schema table (the table
   itself, with every argument type classified as the code classifies it at run time, is Gen/TlSchemaTable.v);
   tl/block.py: BlockIdExt.to_bytes / from_bytes.  Definitions only. *)
From Coq Require Import NArith ZArith List Bool String.
From PTQ Require Import Base.Result Base.Bytes Base.Bits.
Import ListNotations.
Local Open Scope Z_scope.

Inductive fkind := FBoolT | FIntT | FRaw.       (* Bool | #,int,long | int128,int256 *)
Inductive tltype :=
| TFixed (len : nat) (k : fkind) | TBytes | TString
| TBoxed (cls : string) | TBare (name : string)
| TVector (elem : tltype) (elem_name : string) (elem_named : bool)   (* elem_named: get_by_name(subtype) is a constructor *)
| TNamedBoxed (name : string)                      (* entry point: schemas.serialize(name, data) *)
| TUnsupported.
Record tl_arg := mkArg { a_field : string; a_cond : option nat; a_ser_cond : bool; a_ty : tltype }.
Record tl_ctor := mkCtor { c_id : list N; c_name : string; c_class : string; c_args : list tl_arg }.
Definition tl_tbl := list tl_ctor.

(* Python values handed to / returned by the TL layer *)
Inductive tv :=
| TVInt (z : Z) | TVBool (b : bool) | TVBytes (l : list N) | TVStr (l : list N)   (* str, as its UTF-8 bytes *)
| TVHex (l : list N)                                                              (* hex str of these bytes *)
| TVObj (ty : string) (fields : list (string * tv))                                (* dict with '@type' *)
| TVVec (l : list tv) | TVNone.

Definition bool_true_id : list N := [0xb5; 0x75; 0x72; 0x99]%N.
Definition bool_false_id : list N := [0x37; 0x97; 0x79; 0xbc]%N.

Fixpoint by_name (t : tl_tbl) (n : string) : option tl_ctor :=
  match t with [] => None | c :: r => match by_name r n with Some x => Some x | None => if String.eqb (c_name c) n then Some c else None end end.
Definition by_class (t : tl_tbl) (cls : string) : list tl_ctor := filter (fun c => String.eqb (c_class c) cls) t.
Fixpoint by_id (t : tl_tbl) (id : list N) : option tl_ctor :=      (* id big-endian; later entries win, as in a dict *)
  match t with
  | [] => None
  | c :: r => match by_id r id with Some x => Some x
              | None => if (List.length (c_id c) =? List.length id)%nat && forallb (fun p => N.eqb (fst p) (snd p)) (combine (c_id c) id)
                        then Some c else None end
  end.

Fixpoint assoc (l : list (string * tv)) (k : string) : option tv :=
  match l with [] => None | (n, v) :: r => if String.eqb n k then Some v else assoc r k end.

(* int.to_bytes(len, 'little', signed=True) *)
Definition int_le_signed (len : nat) (z : Z) : result (list N) :=
  let w := Z.of_nat (8 * len) in
  if (- 2 ^ (w - 1) <=? z) && (z <? 2 ^ (w - 1)) then Ok (le_bytes len (Z.to_N (z mod 2 ^ w))) else Err EOverflow.
(* int.from_bytes(bs, 'little', signed=True) *)
Definition int_of_le_signed (bs : list N) : Z :=
  let n := Z.of_N (of_le bs) in
  let w := Z.of_nat (8 * List.length bs) in
  match bs with [] => 0 | _ => if n <? 2 ^ (w - 1) then n else n - 2 ^ w end.

(* bytes framing: length prefix (1 byte if <= 253 else 0xFE + 3 bytes LE), data, zero padding to 4 *)
Definition frame_bytes (l : list N) : list N :=
  let n := List.length l in
  let pre := if (n <=? 253)%nat then [N.of_nat n] else 254%N :: le_bytes 3 (N.of_nat n) in
  let body := (pre ++ l)%list in
  (body ++ repeat 0%N ((4 - List.length body mod 4) mod 4))%list.

(* bytes.decode(): strict UTF-8 (no overlong forms, no surrogates, at most U+10FFFF) *)
Fixpoint valid_utf8 (fuel : nat) (l : list N) : bool :=
  match fuel with
  | O => false
  | S f =>
    let cont (b : N) := ((128 <=? b) && (b <=? 191))%N in
    match l with
    | [] => true
    | b0 :: r =>
      if (b0 <? 128)%N then valid_utf8 f r
      else if ((194 <=? b0) && (b0 <=? 223))%N then
        match r with b1 :: r1 => cont b1 && valid_utf8 f r1 | _ => false end
      else if (b0 =? 224)%N then
        match r with b1 :: b2 :: r2 => ((160 <=? b1) && (b1 <=? 191))%N && cont b2 && valid_utf8 f r2 | _ => false end
      else if (((225 <=? b0) && (b0 <=? 236)) || (b0 =? 238) || (b0 =? 239))%N then
        match r with b1 :: b2 :: r2 => cont b1 && cont b2 && valid_utf8 f r2 | _ => false end
      else if (b0 =? 237)%N then
        match r with b1 :: b2 :: r2 => ((128 <=? b1) && (b1 <=? 159))%N && cont b2 && valid_utf8 f r2 | _ => false end
      else if (b0 =? 240)%N then
        match r with b1 :: b2 :: b3 :: r3 => ((144 <=? b1) && (b1 <=? 191))%N && cont b2 && cont b3 && valid_utf8 f r3 | _ => false end
      else if ((241 <=? b0) && (b0 <=? 243))%N then
        match r with b1 :: b2 :: b3 :: r3 => cont b1 && cont b2 && cont b3 && valid_utf8 f r3 | _ => false end
      else if (b0 =? 244)%N then
        match r with b1 :: b2 :: b3 :: r3 => ((128 <=? b1) && (b1 <=? 143))%N && cont b2 && cont b3 && valid_utf8 f r3 | _ => false end
      else false
    end
  end.

Section Tl.
  Variable tbl : tl_tbl.

  Fixpoint ser_field (fuel : nat) (ty : tltype) (v : tv) : result (list N) :=
    match fuel with
    | O => Err ERecursion
    | S f =>
      (* TlSchemas.serialize(schema, data, boxed) *)
      let ser_obj (c : tl_ctor) (fields : list (string * tv)) (boxed : bool) : result (list N) :=
          fold_left (fun acc a =>
                       bind acc (fun bytes =>
                       let present := match assoc fields (a_field a) with Some TVNone | None => false | Some _ => true end in
                       if a_ser_cond a && negb present then Ok bytes
                       else match assoc fields (a_field a) with
                            | None => Err EIndex                       (* data[field]: KeyError *)
                            | Some x => rmap (fun b => (bytes ++ b)%list) (ser_field f (a_ty a) x)
                            end))
                    (c_args c) (Ok (if boxed then rev (c_id c) else [])) in
      match ty with
      | TFixed len k =>
          match v with
          | TVBool b => Ok (if b then bool_true_id else bool_false_id)
          | TVBytes l => Ok (rev (firstn len l) ++ repeat 0%N (len - List.length l))%list
          | TVInt z => int_le_signed len z
          | TVHex l => Ok l
          | TVStr _ => Err EValue                      (* bytes.fromhex of a non-hex str *)
          | _ => Ok []
          end
      | TBytes | TString =>
          let payload :=
            match ty, v with
            | TString, TVStr l => Ok (Some l)
            | _, TVObj n fs => match by_name tbl n with
                               | Some c => rmap Some (ser_obj c fs true)
                               | None => Err EAttr
                               end
            | _, TVBytes l => Ok (Some l)
            | _, _ => Ok None
            end in
          bind payload (fun p => Ok (match p with Some l => frame_bytes l | None => [] end))
      | TBoxed cls =>
          match by_class tbl cls with
          | [] => Err EAttr
          | [c] => match v with TVObj _ fs => ser_obj c fs true | _ => Err EAttr end
          | _ => match v with
                 | TVBytes l => Ok l
                 | TVObj n fs => match by_name tbl n with Some c => ser_obj c fs true | None => Err EAttr end
                 | _ => Err ETl
                 end
          end
      | TBare n =>
          match by_name tbl n, v with
          | Some c, TVObj _ fs => ser_obj c fs false
          | _, _ => Err EAttr
          end
      | TNamedBoxed n =>
          match by_name tbl n, v with
          | Some c, TVObj _ fs => ser_obj c fs true
          | _, _ => Err EAttr
          end
      | TVector el _ _ =>
          match v with
          | TVVec l =>
              fold_left (fun acc x => bind acc (fun bytes => rmap (fun b => (bytes ++ b)%list) (ser_field f el x)))
                        l (Ok (le_bytes 4 (N.of_nat (List.length l))))
          | _ => Err EType
          end
      | TUnsupported => Err EAttr
      end
    end.

  Definition serialize (fuel : nat) (name : string) (fields : list (string * tv)) : result (list N) :=
    ser_field fuel (TNamedBoxed name) (TVObj name fields).

  (* ---------------- deserialize ---------------- *)
  Definition untouchable (ctor field : string) : bool :=
    (String.eqb ctor "adnl.message.part" || String.eqb ctor "overlay.broadcastFec") && String.eqb field "data".

  Definition bslice (d : list N) (a b : nat) : list N := firstn (b - a) (skipn a d).

  (* `subtype in self.base_types` for a vector element type, and the argument list {'': subtype} it is parsed with *)
  Definition is_base_ty (ty : tltype) : bool :=
    match ty with TFixed _ _ | TBytes | TString => true | _ => false end.
  Definition elem_ctor (el : tltype) : tl_ctor := mkCtor [] "" "" [mkArg "" None false el].

  (* bit `index` of the flags value, as `bin(x)[::-1][index] == '1'`; None when mode/flags is missing *)
  Definition flag_set (fields : list (string * tv)) (index : nat) : result bool :=
    match (match assoc fields "mode" with Some x => Some x | None => assoc fields "flags" end) with
    | Some (TVInt z) =>
        (* z < 0: bin(z) = '-0b...', so the mask is the reversed digits of |z| followed by '-', and '-' is not '0' *)
        if z <? 0 then Ok (Z.testbit (- z) (Z.of_nat index) || (Z.of_nat index =? Z.log2 (- z) + 1))
        else Ok (Z.testbit z (Z.of_nat index))
    | _ => Err EType
    end.

  Fixpoint deser (fuel : nat) (d : list N) (boxed : bool) (ctor : option tl_ctor) : result (tv * nat) :=
    match fuel with
    | O => Err ERecursion
    | S f =>
      let start : option (tl_ctor * nat * list (string * tv)) + unit :=
        if boxed then
          match by_id tbl (rev (bslice d 0 4)) with
          | None => inr tt
          | Some c => inl (Some (c, 4%nat, []))
          end
        else match ctor with Some c => inl (Some (c, 0%nat, [])) | None => inl None end in
      match start with
      | inr _ => Ok (TVBytes d, List.length d)                      (* unknown id: the data itself *)
      | inl None => Err EAttr
      | inl (Some (c, i0, fs0)) =>
        let step (acc : result (nat * list (string * tv))) (a : tl_arg) : result (nat * list (string * tv)) :=
          bind acc (fun '(i, fs) =>
          bind (match a_cond a with
                | None => Ok true
                | Some ix => flag_set fs ix
                end) (fun present =>
          if negb present then Ok (i, fs) else
          match a_ty a with
          | TFixed len FBoolT =>
              let w := bslice d i (i + len) in
              let fs' := if forallb (fun p => N.eqb (fst p) (snd p)) (combine w bool_true_id) && (List.length w =? 4)%nat
                         then fs ++ [(a_field a, TVBool true)]
                         else if forallb (fun p => N.eqb (fst p) (snd p)) (combine w bool_false_id) && (List.length w =? 4)%nat
                         then fs ++ [(a_field a, TVBool false)] else fs in
              Ok ((i + len)%nat, fs')
          | TFixed len FRaw => Ok ((i + len)%nat, fs ++ [(a_field a, TVHex (bslice d i (i + len)))])
          | TFixed len FIntT => Ok ((i + len)%nat, fs ++ [(a_field a, TVInt (int_of_le_signed (bslice d i (i + len))))])
          | TBytes | TString =>
              let '(blen, attach, i1) :=
                  match bslice d i (i + 1) with
                  | [254%N] => (N.to_nat (of_le (bslice d (i + 1) (i + 4))), 4%nat, (i + 4)%nat)
                  | b => (N.to_nat (of_le b), 1%nat, (i + 1)%nat)
                  end in
              let payload := bslice d i1 (i1 + blen) in
              bind (if (if boxed then untouchable (c_name c) (a_field a) else false)
                    then Ok (TVBytes payload)
                    else
                      bind (deser f payload true None) (fun '(temp, j) =>
                      if (j <? blen)%nat then
                        (* several concatenated objects: a list; fuel bounds the loop *)
                        (fix more (n : nat) (j : nat) (acc : list tv) : result tv :=
                           match n with
                           | O => Err ERecursion
                           | S n' =>
                             if (j <? blen)%nat then
                               bind (deser f (bslice d (i1 + j) (i1 + blen)) true None) (fun '(t2, jj) =>
                               if (jj =? 0)%nat then Ok (TVBytes payload) else more n' (j + jj)%nat (acc ++ [t2]))
                             else Ok (TVVec acc)
                           end) (S blen) j [temp]
                      else Ok temp)) (fun val =>
              let i2 := (i1 + blen)%nat in
              let i3 := if ((blen + attach) mod 4 =? 0)%nat then i2 else (i2 + (4 - (blen + attach) mod 4))%nat in
              bind (match a_ty a, val with
                    | TString, TVBytes l => if valid_utf8 (S (List.length l)) l then Ok (TVStr l) else Err EValue
                    | TString, _ => Err EAttr
                    | _, x => Ok x
                    end) (fun val' => Ok (i3, fs ++ [(a_field a, val')])))
          | TVector el elname named =>
              let cnt := of_le (bslice d i (i + 4)) in
              let i1 := (i + 4)%nat in
              (* `length > len(data) - i`: the right-hand side is negative when earlier fixed-width reads ran past
                 the end of the data, and then the check fires even for a zero count *)
              if Z.of_nat (List.length d) - Z.of_nat i1 <? Z.of_N cnt then Err ETl else
              let n := N.to_nat cnt in
              bind ((fix loop (k : nat) (i : nat) (acc : list tv) : result (nat * list tv) :=
                       match k with
                       | O => Ok (i, acc)
                       | S k' =>
                           bind (if is_base_ty el then
                                   (* an element of a base type is read like a field of that type:
                                      deserialize(data[i:], False, {'': subtype}) and then deser[''] *)
                                   bind (deser f (skipn i d) false (Some (elem_ctor el))) (fun '(x, j) =>
                                   match x with
                                   | TVObj _ xs => match assoc xs "" with Some y => Ok (y, j) | None => Err EIndex end
                                   | _ => Err EIndex
                                   end)
                                 else if named then deser f (skipn i d) false (by_name tbl elname)
                                 else deser f (skipn i d) true None) (fun '(x, j) => loop k' (i + j)%nat (acc ++ [x]))
                       end) n i1 []) (fun '(i2, items) => Ok (i2, fs ++ [(a_field a, TVVec items)]))
          | TBare nm =>
              bind (deser f (skipn i d) false (by_name tbl nm)) (fun '(x, j) =>
              let x' := match x with TVObj _ xs => TVObj nm xs | y => y end in
              Ok ((i + j)%nat, fs ++ [(a_field a, x')]))
          | TBoxed _ =>
              bind (deser f (skipn i d) true None) (fun '(x, j) => Ok ((i + j)%nat, fs ++ [(a_field a, x)]))
          | TNamedBoxed _ | TUnsupported => Err EAttr
          end)) in
        bind (fold_left step (c_args c) (Ok (i0, fs0))) (fun '(i, fs) =>
        Ok (TVObj (if boxed then c_name c else "") fs, i))
      end
    end.

  Definition deserialize (fuel : nat) (d : list N) : result (tv * nat) := deser fuel d true None.
End Tl.

(* tl/block.py: BlockIdExt.to_bytes / from_bytes *)
Definition int_be_signed (len : nat) (z : Z) : result (list N) := rmap (@rev N) (int_le_signed len z).
Definition block_id_to_bytes (wc shard seqno : Z) (root file : list N) : result (list N) :=
  bind (int_be_signed 4 wc) (fun a => bind (int_be_signed 8 shard) (fun b => bind (int_be_signed 4 seqno) (fun c =>
  Ok (a ++ b ++ c ++ root ++ file)%list))).
Definition block_id_from_bytes (d : list N) : Z * Z * Z * list N * list N :=
  let sl a b := firstn (b - a) (skipn a d) in
  (int_of_le_signed (rev (sl 0 4)%nat), int_of_le_signed (rev (sl 4 12)%nat), int_of_le_signed (rev (sl 12 16)%nat),
   sl 16%nat 48%nat, sl 48%nat 80%nat).
