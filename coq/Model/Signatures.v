(* proof/check_proof.py: calculate_node_id_short, check_block_signatures; crypto/signature.py glue.
   The hash and Ed25519 verification are parameters: nothing is assumed about them. *)
From Coq Require Import NArith ZArith List Bool.
From PTQ Require Import Base.Result Base.Bytes Model.Cell.
Import ListNotations.
Local Open Scope N_scope.

Record vdesc := mkV { v_pk : list N; v_weight : N }.        (* ValidatorDescr: public key, weight *)
Definition sig_entry := (list N * list N)%type.               (* (node_id_short bytes, signature) *)

Section Sig.
  Variable H : list N -> list N.
  (* verify_sign(public_key, signed_message, signature): True / False (BadSignatureError -> False) *)
  Variable verify : list N -> list N -> list N -> bool.

  Definition node_id_magic : list N := [0xc6; 0xb4; 0x13; 0x48].
  Definition sign_magic : list N := [0x70; 0x6e; 0x0b; 0xc5].       (* b'pn\x0b\xc5' *)
  Definition node_id_short (pk : list N) : list N := H (node_id_magic ++ pk).
  Definition to_sign (root_hash file_hash : list N) : list N := sign_magic ++ root_hash ++ file_hash.

  (* node_map[...] = node in list order: a later validator with the same id replaces an earlier one *)
  Fixpoint node_lookup (nodes : list vdesc) (id : list N) : option vdesc :=
    match nodes with
    | [] => None
    | v :: r => match node_lookup r id with
                | Some w => Some w
                | None => if bytes_eqb (node_id_short (v_pk v)) id then Some v else None
                end
    end.

  Definition total_weight (nodes : list vdesc) : N := fold_left (fun a v => a + v_weight v) nodes 0.

  Fixpoint sig_loop (nodes : list vdesc) (msg : list N) (sigs : list sig_entry)
           (seen : list (list N)) (w : N) : result N :=
    match sigs with
    | [] => Ok w
    | (id, sg) :: r =>
        match node_lookup nodes id with
        | None => Err EProof
        | Some v =>
            if existsb (bytes_eqb id) seen then Err EProof
            else if verify (v_pk v) msg sg then sig_loop nodes msg r (id :: seen) (w + v_weight v)
            else Err EProof
        end
    end.

  Definition check_block_signatures (nodes : list vdesc) (sigs : list sig_entry)
             (root_hash file_hash : list N) : result unit :=
    bind (sig_loop nodes (to_sign root_hash file_hash) sigs [] 0) (fun signed =>
    if 2 * total_weight nodes <? 3 * signed then Ok tt else Err EProof).

  (* ---- what the property demands ---- *)
  Definition weight_of (nodes : list vdesc) (id : list N) : N :=
    match node_lookup nodes id with Some v => v_weight v | None => 0 end.
  Definition s_accept (nodes : list vdesc) (sigs : list sig_entry) (root_hash file_hash : list N) : Prop :=
    NoDup (map fst sigs) /\
    Forall (fun e => exists v, In v nodes /\ node_id_short (v_pk v) = fst e /\
                               verify (v_pk v) (to_sign root_hash file_hash) (snd e) = true) sigs /\
    2 * total_weight nodes < 3 * fold_right (fun e a => weight_of nodes (fst e) + a) 0 sigs.
End Sig.
