(* The model and the specification instantiated with the executable SHA-256. *)
From Coq Require Import NArith ZArith List.
From PTQ Require Import Base.Result Base.Bytes Base.Bits Base.Sha256 Model.Cell Spec.CellRepr.

Definition mk_cell_sha := mk_cell sha256.
Definition build_sha := build sha256.
Definition repr_hash_sha := calculate_representation_hash sha256.
Definition s_hash_sha := s_hash sha256.
Definition s_hd_sha := s_hd sha256.
Definition s_prune_sha := s_prune sha256.
