(* tlb/vm_stack.py: VmStack, VmStackList, VmStackValue, VmTuple, VmTupleRef, VmCellSlice and the
   control-data-free continuations of VmCont (vmc_quit, vmc_quit_exc, vmc_pushint, vmc_repeat, vmc_until,
   vmc_again, vmc_while_cond, vmc_while_body).  vmc_std / vmc_envelope carry a VmControlData whose
   serialiser and parser do not agree (recorded finding) and are not modelled.  Definitions only. *)
From Coq Require Import NArith ZArith List Bool.
From PTQ Require Import Base.Result Base.Bytes Base.Bits Model.Cell Model.Builder Model.Hashmap.
Import ListNotations.
Local Open Scope Z_scope.

Inductive vmcont :=
| CQuit (code : Z) | CQuitExc | CPushInt (v : Z) (next : vmcont)
| CRepeat (count : Z) (body after : vmcont) | CUntil (body after : vmcont) | CAgain (body : vmcont)
| CWhileCond (c b a : vmcont) | CWhileBody (c b a : vmcont).

Inductive vmval :=
| VmNull | VmInt (z : Z) | VmCellV (c : cell)
| VmSliceV (bits : list bool) (refs : list cell)          (* a Slice: remaining bits and refs *)
| VmBuilderV (bits : list bool) (refs : list cell)        (* a Builder: its content *)
| VmTupleV (l : list vmval) | VmContV (k : vmcont).

Definition bits_of_str (l : list bool) := l.
Definition tag_bytes (b : builder) (bs : list N) := b_store_bytes b bs.

(* ---------------- serialisers ---------------- *)
Fixpoint ser_cont (k : vmcont) : result cell :=
  match k with
  | CQuit code => bind (b_store_bits b_empty [true; false; false; false]) (fun b => bind (b_store_int b code 32) b_end_cell)
  | CQuitExc => bind (b_store_bits b_empty [true; false; false; true]) b_end_cell
  | CPushInt v next =>
      bind (b_store_bits b_empty [true; true; true; true]) (fun b => bind (b_store_int b v 32) (fun b1 =>
      bind (ser_cont next) (fun c => bind (b_store_ref b1 c) b_end_cell)))
  | CRepeat count body after =>
      bind (b_store_bits b_empty [true; false; true; false; false]) (fun b => bind (b_store_uint b count 63) (fun b1 =>
      bind (ser_cont body) (fun c1 => bind (b_store_ref b1 c1) (fun b2 =>
      bind (ser_cont after) (fun c2 => bind (b_store_ref b2 c2) b_end_cell)))))
  | CUntil body after =>
      bind (b_store_bits b_empty [true; true; false; false; false; false]) (fun b =>
      bind (ser_cont body) (fun c1 => bind (b_store_ref b c1) (fun b2 =>
      bind (ser_cont after) (fun c2 => bind (b_store_ref b2 c2) b_end_cell))))
  | CAgain body =>
      bind (b_store_bits b_empty [true; true; false; false; false; true]) (fun b =>
      bind (ser_cont body) (fun c1 => bind (b_store_ref b c1) b_end_cell))
  | CWhileCond c b0 a =>
      bind (b_store_bits b_empty [true; true; false; false; true; false]) (fun b =>
      bind (ser_cont c) (fun c1 => bind (b_store_ref b c1) (fun b2 =>
      bind (ser_cont b0) (fun c2 => bind (b_store_ref b2 c2) (fun b3 =>
      bind (ser_cont a) (fun c3 => bind (b_store_ref b3 c3) b_end_cell))))))
  | CWhileBody c b0 a =>
      bind (b_store_bits b_empty [true; true; false; false; true; true]) (fun b =>
      bind (ser_cont c) (fun c1 => bind (b_store_ref b c1) (fun b2 =>
      bind (ser_cont b0) (fun c2 => bind (b_store_ref b2 c2) (fun b3 =>
      bind (ser_cont a) (fun c3 => bind (b_store_ref b3 c3) b_end_cell))))))
  end.

(* VmCellSlice.serialize(value: Slice) *)
Definition ser_cellslice (bits : list bool) (refs : list cell) : result cell :=
  bind (bind (b_store_slice b_empty (mkS bits refs)) b_end_cell) (fun inner =>
  bind (b_store_ref b_empty inner) (fun b1 =>
  bind (b_store_uint b1 0 10) (fun b2 =>
  bind (b_store_uint b2 (Z.of_nat (length bits)) 10) (fun b3 =>
  bind (b_store_uint b3 0 3) (fun b4 =>
  bind (b_store_uint b4 (Z.of_nat (length refs)) 3) b_end_cell))))).

(* int.bit_length() < 64 *)
Definition is_tiny (z : Z) : bool := zbit_length z <? 64.

(* VmStackValue.serialize, VmTuple.serialize, VmTupleRef.serialize: mutual recursion, on fuel *)
Fixpoint ser_value (fuel : nat) (v : vmval) : result cell :=
  match fuel with
  | O => Err ERecursion
  | S f =>
    let ser_tuple := (fix ser_tuple (n : nat) (l : list vmval) : result cell :=
        (* VmTuple.serialize(values): n bounds the recursion on the tuple length *)
        match n with
        | O => Err ERecursion
        | S n' =>
          match rev l with
          | [] => Ok (Cell ty_ordinary [] [])
          | last :: rinit =>
              let init := rev rinit in
              bind (match init with
                    | [] => Ok (Cell ty_ordinary [] [])
                    | [x] => bind (ser_value f x) (fun cx => bind (b_store_ref b_empty cx) b_end_cell)
                    | _ => bind (ser_tuple n' init) (fun ct => bind (b_store_ref b_empty ct) b_end_cell)
                    end) (fun cref =>
              bind (b_store_cell b_empty cref) (fun b1 =>
              bind (ser_value f last) (fun cl => bind (b_store_ref b1 cl) b_end_cell)))
          end
        end) in
    match v with
    | VmNull => bind (b_store_bytes b_empty [0%N]) b_end_cell
    | VmInt z =>
        if is_tiny z then bind (b_store_bytes b_empty [1%N]) (fun b => bind (b_store_int b z 64) b_end_cell)
        else bind (b_store_bits b_empty (to_bits 15%nat 256%N)) (fun b => bind (b_store_int b z 257) b_end_cell)
    | VmCellV c => bind (b_store_bytes b_empty [3%N]) (fun b => bind (b_store_ref b c) b_end_cell)
    | VmSliceV bits refs =>
        bind (b_store_bytes b_empty [4%N]) (fun b =>
        bind (ser_cellslice bits refs) (fun cs => bind (b_store_cell b cs) b_end_cell))
    | VmBuilderV bits refs =>
        bind (b_store_bytes b_empty [5%N]) (fun b =>
        bind (b_end_cell (mkB bits refs)) (fun c => bind (b_store_ref b c) b_end_cell))
    | VmContV k =>
        bind (b_store_bytes b_empty [6%N]) (fun b =>
        bind (ser_cont k) (fun ck => bind (b_store_cell b ck) b_end_cell))
    | VmTupleV l =>
        bind (b_store_bytes b_empty [7%N]) (fun b =>
        bind (b_store_uint b (Z.of_nat (length l)) 16) (fun b1 =>
        bind (ser_tuple (S (length l)) l) (fun ct => bind (b_store_cell b1 ct) b_end_cell)))
    end
  end.

(* VmStackList.serialize(data): pops the last value, recurses on the rest *)
Fixpoint ser_stack_list (fuel : nat) (rl : list vmval) : result cell :=   (* rl = the stack REVERSED: top first *)
  match rl with
  | [] => b_end_cell b_empty
  | top :: rest =>
      bind (ser_stack_list fuel rest) (fun cr =>
      bind (b_store_ref b_empty cr) (fun b1 =>
      bind (ser_value fuel top) (fun cv => bind (b_store_cell b1 cv) b_end_cell)))
  end.

Definition ser_stack (fuel : nat) (l : list vmval) : result cell :=
  bind (b_store_uint b_empty (Z.of_nat (length l)) 24) (fun b =>
  bind (ser_stack_list fuel (rev l)) (fun c => bind (b_store_cell b c) b_end_cell)).

(* ---------------- parsers ---------------- *)
Fixpoint dec_cont (fuel : nat) (s : slice) : result (vmcont * slice) :=
  match fuel with
  | O => Err ERecursion
  | S f =>
    let sub (s0 : slice) : result (vmcont * slice) :=
        bind (s_load_ref s0) (fun '(c, s1) => bind (dec_cont f (begin_parse c)) (fun '(k, _) => Ok (k, s1))) in
    let tag := s_preload_bits s 6%nat in
    let pre n := firstn n tag in
    if bits_eqb (pre 2%nat) [false; false] || bits_eqb (pre 2%nat) [false; true] then Err EOther   (* vmc_std / vmc_envelope: not modelled *)
    else if bits_eqb (pre 4%nat) [true; false; false; false] then
      bind (s_skip s 4%nat) (fun s1 => bind (s_load_int s1 32%nat) (fun '(z, s2) => Ok (CQuit z, s2)))
    else if bits_eqb (pre 4%nat) [true; false; false; true] then
      bind (s_skip s 4%nat) (fun s1 => Ok (CQuitExc, s1))
    else if bits_eqb (pre 5%nat) [true; false; true; false; false] then
      bind (s_skip s 5%nat) (fun s1 => bind (s_load_uint s1 63%nat) (fun '(n, s2) =>
      bind (sub s2) (fun '(b, s3) => bind (sub s3) (fun '(a, s4) => Ok (CRepeat n b a, s4)))))
    else if bits_eqb (pre 6%nat) [true; true; false; false; false; false] then
      bind (s_skip s 6%nat) (fun s1 => bind (sub s1) (fun '(b, s2) => bind (sub s2) (fun '(a, s3) => Ok (CUntil b a, s3))))
    else if bits_eqb (pre 6%nat) [true; true; false; false; false; true] then
      bind (s_skip s 6%nat) (fun s1 => bind (sub s1) (fun '(b, s2) => Ok (CAgain b, s2)))
    else if bits_eqb (pre 6%nat) [true; true; false; false; true; false] then
      bind (s_skip s 6%nat) (fun s1 => bind (sub s1) (fun '(c, s2) => bind (sub s2) (fun '(b, s3) =>
      bind (sub s3) (fun '(a, s4) => Ok (CWhileCond c b a, s4)))))
    else if bits_eqb (pre 6%nat) [true; true; false; false; true; true] then
      bind (s_skip s 6%nat) (fun s1 => bind (sub s1) (fun '(c, s2) => bind (sub s2) (fun '(b, s3) =>
      bind (sub s3) (fun '(a, s4) => Ok (CWhileBody c b a, s4)))))
    else if bits_eqb (pre 4%nat) [true; true; true; true] then
      bind (s_skip s 4%nat) (fun s1 => bind (s_load_int s1 32%nat) (fun '(z, s2) =>
      bind (sub s2) (fun '(k, s3) => Ok (CPushInt z k, s3))))
    else Err EOther
  end.

(* VmCellSlice.deserialize *)
Definition dec_cellslice (s : slice) : result (vmval * slice) :=
  bind (s_load_ref s) (fun '(c, s1) =>
  bind (s_load_uint s1 10%nat) (fun '(st_bits, s2) => bind (s_load_uint s2 10%nat) (fun '(end_bits, s3) =>
  if end_bits <? st_bits then Err EOther else
  bind (s_load_uint s3 3%nat) (fun '(st_ref, s4) => bind (s_load_uint s4 3%nat) (fun '(end_ref, s5) =>
  if end_ref <? st_ref then Err EOther else
  let 'Cell _ bits refs := c in
  Ok (VmSliceV (Bits.slice bits (Z.to_nat st_bits) (Z.to_nat end_bits)) (Bits.slice refs (Z.to_nat st_ref) (Z.to_nat end_ref)), s5)))))).

Fixpoint dec_value (fuel : nat) (s : slice) : result (vmval * slice) :=
  match fuel with
  | O => Err ERecursion
  | S f =>
    let dec_tuple := (fix dec_tuple (n : nat) (s0 : slice) (len : nat) : result (list vmval * slice) :=
        (* VmTuple.deserialize(cell_slice, length) *)
        match n with
        | O => Err ERecursion
        | S n' =>
          match len with
          | O => Ok ([], s0)
          | S len' =>
              (* VmTupleRef.deserialize(cell_slice, length - 1) *)
              bind (match len' with
                    | O => Ok ([], s0)
                    | S O => bind (s_load_ref s0) (fun '(c, s1) =>
                             bind (dec_value f (begin_parse c)) (fun '(v, _) => Ok ([v], s1)))
                    | _ => bind (s_load_ref s0) (fun '(c, s1) =>
                           bind (dec_tuple n' (begin_parse c) len') (fun '(l, _) => Ok (l, s1)))
                    end) (fun '(init, s2) =>
              bind (s_load_ref s2) (fun '(c, s3) =>
              bind (dec_value f (begin_parse c)) (fun '(v, _) => Ok (init ++ [v], s3))))
          end
        end) in
    if bits_eqb (s_preload_bits s 15%nat) (to_bits 15%nat 256%N) then
      bind (s_skip s 15%nat) (fun s1 => bind (s_load_int s1 257%nat) (fun '(z, s2) => Ok (VmInt z, s2)))
    else
      let tag := s_preload_bytes s 2%nat in
      match tag with
      | 0%N :: _ => bind (s_skip s 8%nat) (fun s1 => Ok (VmNull, s1))
      | 1%N :: _ => bind (s_skip s 8%nat) (fun s1 => bind (s_load_int s1 64%nat) (fun '(z, s2) => Ok (VmInt z, s2)))
      | [2%N; 255%N] => bind (s_skip s 16%nat) (fun s1 => Ok (VmNull, s1))
      | 3%N :: _ => bind (s_skip s 8%nat) (fun s1 => bind (s_load_ref s1) (fun '(c, s2) => Ok (VmCellV c, s2)))
      | 5%N :: _ => bind (s_skip s 8%nat) (fun s1 => bind (s_load_ref s1) (fun '(c, s2) =>
                    let 'Cell ty bits refs := c in
                    if negb (ty =? ty_ordinary) then Err ECell else Ok (VmBuilderV bits refs, s2)))
      | 4%N :: _ => bind (s_skip s 8%nat) dec_cellslice
      | 6%N :: _ => bind (s_skip s 8%nat) (fun s1 => rmap (fun '(k, s2) => (VmContV k, s2)) (dec_cont f s1))
      | 7%N :: _ => bind (s_skip s 8%nat) (fun s1 => bind (s_load_uint s1 16%nat) (fun '(len, s2) =>
                    rmap (fun '(l, s3) => (VmTupleV l, s3)) (dec_tuple (S (Z.to_nat len)) s2 (Z.to_nat len))))
      | _ => Ok (VmNull, s)          (* no branch matches: the Python method falls off its end and returns None *)
      end
  end.

Fixpoint dec_stack_list (fuel : nat) (n : nat) (s : slice) : result (list vmval) :=
  match n with
  | O => Ok []
  | S n' =>
      bind (s_load_ref s) (fun '(c, s1) =>
      bind (dec_stack_list fuel n' (begin_parse c)) (fun rest =>
      bind (dec_value fuel s1) (fun '(v, _) => Ok (rest ++ [v]))))
  end.

Definition dec_stack (fuel : nat) (s : slice) : result (list vmval) :=
  bind (s_load_uint s 24%nat) (fun '(depth, s1) => dec_stack_list fuel (Z.to_nat depth) s1).
