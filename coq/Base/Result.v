(* Python exceptions as values. *)
From Coq Require Import List.
Import ListNotations.

Inductive err :=
| EOverflow | EUnderflow | EIndex | EValue | EType | EBoc | ECell | EDict
| EAddress | EProof | ETl | EAssert | EAttr | ERecursion | EFuel | EOther.

Inductive result (A : Type) := Ok (a : A) | Err (e : err).
Arguments Ok {A} a.
Arguments Err {A} e.

Definition bind {A B} (r : result A) (f : A -> result B) : result B :=
  match r with Ok a => f a | Err e => Err e end.
Definition rmap {A B} (f : A -> B) (r : result A) : result B :=
  match r with Ok a => Ok (f a) | Err e => Err e end.
Definition is_ok {A} (r : result A) : bool := match r with Ok _ => true | Err _ => false end.

Declare Scope res_scope.
Delimit Scope res_scope with res.
Notation "x <- c1 ;; c2" := (bind c1 (fun x => c2))
  (at level 61, c1 at next level, right associativity) : res_scope.
Notation "' pat <- c1 ;; c2" := (bind c1 (fun x => match x with pat => c2 end))
  (at level 61, pat pattern, c1 at next level, right associativity) : res_scope.
Notation "'assert!' b 'else' e ;; c" := (if b then c else Err e)
  (at level 61, b at next level, e at next level, right associativity) : res_scope.

Fixpoint mapM {A B} (f : A -> result B) (l : list A) : result (list B) :=
  match l with
  | [] => Ok []
  | x :: xs => bind (f x) (fun y => bind (mapM f xs) (fun ys => Ok (y :: ys)))
  end.
