(* SHA-256 (FIPS 180-4) as an executable Gallina function over byte lists. *)
From Coq Require Import NArith List Lia.
From PTQ Require Import Base.Bytes.
Import ListNotations.
Local Open Scope N_scope.

Definition m32 : N := 0xFFFFFFFF.
Definition add32 (a b : N) : N := N.land (a + b) m32.
Definition rotr (n x : N) : N := N.lor (N.shiftr x n) (N.land (N.shiftl x (32 - n)) m32).
Definition ch (x y z : N) := N.lxor (N.land x y) (N.land (N.lxor x m32) z).
Definition maj (x y z : N) := N.lxor (N.lxor (N.land x y) (N.land x z)) (N.land y z).
Definition bsig0 x := N.lxor (N.lxor (rotr 2 x) (rotr 13 x)) (rotr 22 x).
Definition bsig1 x := N.lxor (N.lxor (rotr 6 x) (rotr 11 x)) (rotr 25 x).
Definition ssig0 x := N.lxor (N.lxor (rotr 7 x) (rotr 18 x)) (N.shiftr x 3).
Definition ssig1 x := N.lxor (N.lxor (rotr 17 x) (rotr 19 x)) (N.shiftr x 10).

Definition sha_k : list N := [
  0x428a2f98; 0x71374491; 0xb5c0fbcf; 0xe9b5dba5; 0x3956c25b; 0x59f111f1; 0x923f82a4; 0xab1c5ed5;
  0xd807aa98; 0x12835b01; 0x243185be; 0x550c7dc3; 0x72be5d74; 0x80deb1fe; 0x9bdc06a7; 0xc19bf174;
  0xe49b69c1; 0xefbe4786; 0x0fc19dc6; 0x240ca1cc; 0x2de92c6f; 0x4a7484aa; 0x5cb0a9dc; 0x76f988da;
  0x983e5152; 0xa831c66d; 0xb00327c8; 0xbf597fc7; 0xc6e00bf3; 0xd5a79147; 0x06ca6351; 0x14292967;
  0x27b70a85; 0x2e1b2138; 0x4d2c6dfc; 0x53380d13; 0x650a7354; 0x766a0abb; 0x81c2c92e; 0x92722c85;
  0xa2bfe8a1; 0xa81a664b; 0xc24b8b70; 0xc76c51a3; 0xd192e819; 0xd6990624; 0xf40e3585; 0x106aa070;
  0x19a4c116; 0x1e376c08; 0x2748774c; 0x34b0bcb5; 0x391c0cb3; 0x4ed8aa4a; 0x5b9cca4f; 0x682e6ff3;
  0x748f82ee; 0x78a5636f; 0x84c87814; 0x8cc70208; 0x90befffa; 0xa4506ceb; 0xbef9a3f7; 0xc67178f2].

Definition st8 := (N * N * N * N * N * N * N * N)%type.
Definition sha_init : st8 :=
  (0x6a09e667, 0xbb67ae85, 0x3c6ef372, 0xa54ff53a, 0x510e527f, 0x9b05688c, 0x1f83d9ab, 0x5be0cd19).

(* words of a 64-byte block, big-endian *)
Fixpoint words_of (n : nat) (bs : list N) : list N :=
  match n with
  | O => []
  | S n' => match bs with
            | a :: b :: c :: d :: r => (((a * 256 + b) * 256 + c) * 256 + d) :: words_of n' r
            | _ => []
            end
  end.

(* message schedule kept most-recent-first: rev_w = [w(i-1); w(i-2); ...] *)
Fixpoint extend (n : nat) (rev_w : list N) : list N :=
  match n with
  | O => rev_w
  | S n' =>
    let w2 := nth 1 rev_w 0 in let w7 := nth 6 rev_w 0 in
    let w15 := nth 14 rev_w 0 in let w16 := nth 15 rev_w 0 in
    extend n' (add32 (add32 (ssig1 w2) w7) (add32 (ssig0 w15) w16) :: rev_w)
  end.

Definition round (s : st8) (kw : N * N) : st8 :=
  let '(a, b, c, d, e, f, g, h) := s in
  let '(k, w) := kw in
  let t1 := add32 (add32 (add32 h (bsig1 e)) (add32 (ch e f g) k)) w in
  let t2 := add32 (bsig0 a) (maj a b c) in
  (add32 t1 t2, a, b, c, add32 d t1, e, f, g).

Definition compress (s : st8) (block : list N) : st8 :=
  let w := rev (extend 48 (rev (words_of 16 block))) in
  let '(a, b, c, d, e, f, g, h) := fold_left round (combine sha_k w) s in
  let '(a0, b0, c0, d0, e0, f0, g0, h0) := s in
  (add32 a0 a, add32 b0 b, add32 c0 c, add32 d0 d, add32 e0 e, add32 f0 f, add32 g0 g, add32 h0 h).

Fixpoint blocks (fuel : nat) (s : st8) (bs : list N) : st8 :=
  match fuel with
  | O => s
  | S f => match bs with
           | [] => s
           | _ => blocks f (compress s (firstn 64 bs)) (skipn 64 bs)
           end
  end.

Definition sha_pad (bs : list N) : list N :=
  let l := N.of_nat (length bs) in
  let k := (119 - l mod 64) mod 64 in   (* zero bytes so that l + 1 + k + 8 = 0 mod 64 *)
  bs ++ [128] ++ repeat 0 (N.to_nat k) ++ be_bytes 8 (l * 8).

Definition sha256 (bs : list N) : list N :=
  let p := sha_pad bs in
  let '(a, b, c, d, e, f, g, h) := blocks (Nat.div (length p) 64 + 1)%nat sha_init p in
  be_bytes 4 a ++ be_bytes 4 b ++ be_bytes 4 c ++ be_bytes 4 d ++
  be_bytes 4 e ++ be_bytes 4 f ++ be_bytes 4 g ++ be_bytes 4 h.

Lemma sha256_len bs : length (sha256 bs) = 32%nat.
Proof.
  unfold sha256. destruct (blocks _ _ _) as [[[[[[[a b] c] d] e] f] g] h].
  rewrite !app_length, !be_bytes_length. reflexivity.
Qed.

Lemma sha256_ok bs : bytes_ok (sha256 bs).
Proof.
  unfold sha256. destruct (blocks _ _ _) as [[[[[[[a b] c] d] e] f] g] h].
  unfold bytes_ok. rewrite !Forall_app. repeat split; apply be_bytes_ok.
Qed.

(* "abc" and the empty string *)
Example sha256_abc : sha256 [97; 98; 99] =
  [0xba;0x78;0x16;0xbf;0x8f;0x01;0xcf;0xea;0x41;0x41;0x40;0xde;0x5d;0xae;0x22;0x23;
   0xb0;0x03;0x61;0xa3;0x96;0x17;0x7a;0x9c;0xb4;0x10;0xff;0x61;0xf2;0x00;0x15;0xad].
Proof. vm_compute. reflexivity. Qed.
Example sha256_empty : sha256 [] =
  [0xe3;0xb0;0xc4;0x42;0x98;0xfc;0x1c;0x14;0x9a;0xfb;0xf4;0xc8;0x99;0x6f;0xb9;0x24;
   0x27;0xae;0x41;0xe4;0x64;0x9b;0x93;0x4c;0xa4;0x95;0x99;0x1b;0x78;0x52;0xb8;0x55].
Proof. vm_compute. reflexivity. Qed.
