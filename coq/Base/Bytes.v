(* Bytes are [list N] with every element < 256; bits are [list bool], most significant first. *)
From Coq Require Import NArith ZArith List Bool Lia.
Import ListNotations.
Local Open Scope N_scope.

Definition bytes_ok (bs : list N) : Prop := Forall (fun b => b < 256) bs.
Definition bytes_okb (bs : list N) : bool := forallb (fun b => b <? 256) bs.

(* int.to_bytes(w, 'little') without the overflow check: low w bytes *)
Fixpoint le_bytes (w : nat) (n : N) : list N :=
  match w with O => [] | S w' => (n mod 256) :: le_bytes w' (n / 256) end.
Definition be_bytes (w : nat) (n : N) : list N := rev (le_bytes w n).

(* int.from_bytes(bs, 'big') / 'little' *)
Definition of_be (bs : list N) : N := fold_left (fun acc b => acc * 256 + b) bs 0.
Fixpoint of_le (bs : list N) : N :=
  match bs with [] => 0 | b :: r => b + 256 * of_le r end.

(* bounded universal quantification over N by computation *)
Fixpoint allb_from (fuel : nat) (i : N) (p : N -> bool) : bool :=
  match fuel with O => true | S f => p i && allb_from f (i + 1) p end.
Definition allb_below (n : N) (p : N -> bool) : bool := allb_from (N.to_nat n) 0 p.

Lemma allb_from_spec fuel : forall i p, allb_from fuel i p = true ->
  forall x, i <= x < i + N.of_nat fuel -> p x = true.
Proof.
  induction fuel as [|f IH]; intros i p H x Hx; [lia|].
  cbn [allb_from] in H. apply andb_prop in H. destruct H as [H1 H2].
  destruct (N.eq_dec x i) as [->|Hne]; [exact H1|].
  apply (IH (i + 1) p H2). lia.
Qed.

Lemma allb_below_spec n p : allb_below n p = true -> forall x, x < n -> p x = true.
Proof.
  unfold allb_below. intros H x Hx. apply (allb_from_spec _ _ _ H). lia.
Qed.

Lemma le_bytes_length w : forall n, length (le_bytes w n) = w.
Proof. induction w; intros; simpl; auto. Qed.
Lemma be_bytes_length w n : length (be_bytes w n) = w.
Proof. unfold be_bytes. rewrite rev_length. apply le_bytes_length. Qed.

Lemma le_bytes_ok w : forall n, bytes_ok (le_bytes w n).
Proof.
  induction w; intros; simpl; constructor.
  - apply N.mod_lt. lia.
  - apply IHw.
Qed.
Lemma be_bytes_ok w n : bytes_ok (be_bytes w n).
Proof. unfold be_bytes, bytes_ok. apply Forall_rev. apply le_bytes_ok. Qed.

Lemma of_le_le_bytes w : forall n, n < 256 ^ N.of_nat w -> of_le (le_bytes w n) = n.
Proof.
  induction w as [|w IH]; intros n Hn.
  - simpl in *. lia.
  - cbn [le_bytes of_le]. rewrite IH.
    + pose proof (N.div_mod n 256). lia.
    + rewrite Nat2N.inj_succ, N.pow_succ_r' in Hn.
      apply N.div_lt_upper_bound; lia.
Qed.

Lemma of_be_app l : forall b, of_be (l ++ [b]) = of_be l * 256 + b.
Proof. unfold of_be. intros. rewrite fold_left_app. reflexivity. Qed.

Lemma of_be_rev l : of_be (rev l) = of_le l.
Proof.
  induction l as [|b r IH]; [reflexivity|].
  cbn [rev of_le]. rewrite of_be_app, IH. lia.
Qed.

Lemma of_be_be_bytes w n : n < 256 ^ N.of_nat w -> of_be (be_bytes w n) = n.
Proof. intros. unfold be_bytes. rewrite of_be_rev. apply of_le_le_bytes; auto. Qed.
