(* Bit strings (list bool, most significant first) and their integer / byte readings
   as bitarray does them: int2ba / ba2int / tobytes / frombytes. *)
From Coq Require Import NArith ZArith List Bool Lia.
From PTQ Require Import Base.Bytes.
Import ListNotations.
Local Open Scope N_scope.

Definition b2n (b : bool) : N := if b then 1 else 0.

(* ba2int(bits, signed=False) *)
Definition of_bits (l : list bool) : N := fold_left (fun a b => 2 * a + b2n b) l 0.

(* int2ba(n, length=w) without the range check: low w bits, msb first *)
Fixpoint to_bits_le (w : nat) (n : N) : list bool :=
  match w with O => [] | S w' => N.odd n :: to_bits_le w' (n / 2) end.
Definition to_bits (w : nat) (n : N) : list bool := rev (to_bits_le w n).

Fixpoint of_bits_le (l : list bool) : N :=
  match l with [] => 0 | b :: r => b2n b + 2 * of_bits_le r end.

(* bitarray.tobytes(): 8 bits per byte, the last byte zero-padded on the right *)
Fixpoint bits_to_bytes (l : list bool) : list N :=
  match l with
  | [] => []
  | b7 :: b6 :: b5 :: b4 :: b3 :: b2 :: b1 :: b0 :: r =>
      of_bits [b7; b6; b5; b4; b3; b2; b1; b0] :: bits_to_bytes r
  | _ => [of_bits (l ++ repeat false (8 - length l))]
  end.

(* bitarray.frombytes() *)
Definition bytes_to_bits (bs : list N) : list bool := flat_map (to_bits 8) bs.

(* two's complement, width w (Python int2ba(signed=True) / ba2int(signed=True)) *)
Definition of_bits_signed (l : list bool) : Z :=
  match l with
  | [] => 0%Z   (* ba2int raises on empty; callers guard *)
  | s :: _ => if s then (Z.of_N (of_bits l) - 2 ^ Z.of_nat (length l))%Z else Z.of_N (of_bits l)
  end.
Definition to_bits_signed (w : nat) (v : Z) : list bool :=
  to_bits w (Z.to_N (v mod 2 ^ Z.of_nat w)).

Fixpoint popcount_pos (p : positive) : N :=
  match p with xH => 1 | xO q => popcount_pos q | xI q => 1 + popcount_pos q end.
(* bin(n).count("1") *)
Definition popcount (n : N) : N := match n with N0 => 0 | Npos p => popcount_pos p end.
(* int.bit_length() *)
Definition bit_length (n : N) : N := N.size n.

(* Python slicing l[a:b] for 0 <= a, clamped to the list *)
Definition slice {A} (l : list A) (a b : nat) : list A := firstn (b - a) (skipn a l).

(* ---- lemmas ---- *)

Lemma to_bits_le_length w : forall n, length (to_bits_le w n) = w.
Proof. induction w; intros; simpl; auto. Qed.
Lemma to_bits_length w n : length (to_bits w n) = w.
Proof. unfold to_bits. rewrite rev_length. apply to_bits_le_length. Qed.

Lemma of_bits_app l : forall b, of_bits (l ++ [b]) = 2 * of_bits l + b2n b.
Proof. unfold of_bits. intros. rewrite fold_left_app. reflexivity. Qed.

Lemma of_bits_rev l : of_bits (rev l) = of_bits_le l.
Proof.
  induction l as [|b r IH]; [reflexivity|].
  cbn [rev of_bits_le]. rewrite of_bits_app, IH. lia.
Qed.

Lemma odd_b2n n : b2n (N.odd n) = n mod 2.
Proof.
  rewrite <- N.bit0_odd, N.bit0_mod. reflexivity.
Qed.

Lemma of_bits_le_to_bits_le w : forall n, n < 2 ^ N.of_nat w -> of_bits_le (to_bits_le w n) = n.
Proof.
  induction w as [|w IH]; intros n Hn.
  - simpl in *. lia.
  - cbn [to_bits_le of_bits_le]. rewrite IH.
    + rewrite odd_b2n. pose proof (N.div_mod n 2). lia.
    + rewrite Nat2N.inj_succ, N.pow_succ_r' in Hn. apply N.div_lt_upper_bound; lia.
Qed.

Lemma of_bits_to_bits w n : n < 2 ^ N.of_nat w -> of_bits (to_bits w n) = n.
Proof. intro. unfold to_bits. rewrite of_bits_rev. apply of_bits_le_to_bits_le; auto. Qed.

Lemma of_bits_le_bound l : of_bits_le l < 2 ^ N.of_nat (length l).
Proof.
  induction l as [|b r IH]; [simpl; lia|].
  cbn [of_bits_le length]. rewrite Nat2N.inj_succ, N.pow_succ_r'. destruct b; simpl b2n; lia.
Qed.

Lemma of_bits_bound l : of_bits l < 2 ^ N.of_nat (length l).
Proof.
  rewrite <- (rev_involutive l), of_bits_rev, rev_length. apply of_bits_le_bound.
Qed.

Lemma to_bits_le_of_bits_le l : to_bits_le (length l) (of_bits_le l) = l.
Proof.
  induction l as [|b r IH]; [reflexivity|].
  cbn [length to_bits_le of_bits_le]. f_equal.
  - rewrite N.odd_add_mul_2. destruct b; reflexivity.
  - replace ((b2n b + 2 * of_bits_le r) / 2) with (of_bits_le r); [exact IH|].
    symmetry. rewrite N.add_comm, N.mul_comm, N.div_add_l by lia.
    destruct b; cbn [b2n]; [change (1 / 2) with 0|change (0 / 2) with 0]; lia.
Qed.

Lemma to_bits_of_bits l : to_bits (length l) (of_bits l) = l.
Proof.
  unfold to_bits. rewrite <- (rev_involutive l) at 2. rewrite of_bits_rev.
  rewrite <- (rev_length l) at 1. rewrite to_bits_le_of_bits_le, rev_involutive. reflexivity.
Qed.
