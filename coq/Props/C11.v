(* C11 - Merkle proof checks are complete and sound (sound = collision-relative, no axiom about SHA-256). *)
From Coq Require Import NArith ZArith List Bool.
From PTQ Require Import Base.Result Base.Bytes Base.Bits Base.Sha256 Model.Cell Model.Proof
  Spec.CellRepr Spec.CellWf Spec.MerkleProof Proofs.CellOrd Proofs.MerkleProofs.
Import ListNotations.
Local Open Scope N_scope.

(* COMPLETE: for every ordinary tree and every choice of pruned subtrees, the proof built by pruning is
   accepted against the original root hash, by the generic check and by the block-header check *)
Theorem C11_complete : forall v t, virt_of sha256 v t -> wf_ord t = true -> s_depth t <= 1022 ->
  exists k, build sha256 (s_mproof v (s_hash sha256 t) (s_depth t)) = Ok k /\
            check_proof k (s_hash sha256 t) = Ok tt.
Proof. exact (proof_complete sha256 sha256_len sha256_ok). Qed.
Print Assumptions C11_complete.

Theorem C11_header_complete : forall v t, virt_of sha256 v t -> wf_ord t = true -> s_depth t <= 1023 ->
  exists k, build sha256 v = Ok k /\ check_block_header_proof k (s_hash sha256 t) false = Ok None.
Proof. exact (header_complete sha256 sha256_len sha256_ok). Qed.
Print Assumptions C11_header_complete.

(* COMPLETE, for EVERY tree: the original may contain exotic cells of all types, in particular Merkle proof
   and Merkle update cells (nested proofs).  [virt_gen sha256 j v t] (Spec/MerkleProof.v): v is t with
   level-0 subtrees replaced by pruned branches, a subtree below j Merkle cells of the original by the branch
   of mask 2^j.  t is any constructible tree (wf_exotic, depth_okb) of level 0; the proof cell adds one level
   of depth, hence 1022. *)
Theorem C11_complete_nested : forall v t,
  wf_exotic t = true -> depth_okb sha256 t = true -> s_mask t = 0 -> s_depth_at sha256 t 0 <= 1022 ->
  virt_gen sha256 0 v t ->
  exists k, build sha256 (s_mproof v (s_hash_at sha256 t 0) (s_depth_at sha256 t 0)) = Ok k /\
            check_proof k (s_hash_at sha256 t 0) = Ok tt.
Proof. exact (proof_complete_nested sha256 sha256_len sha256_ok). Qed.
Print Assumptions C11_complete_nested.

(* the block-header check takes the virtualised tree itself: no extra level, and any root level *)
Theorem C11_header_complete_nested : forall v t,
  wf_exotic t = true -> depth_okb sha256 t = true -> virt_gen sha256 0 v t ->
  exists k, build sha256 v = Ok k /\ check_block_header_proof k (s_hash_at sha256 t 0) false = Ok None.
Proof. exact (header_complete_nested sha256 sha256_len sha256_ok). Qed.
Print Assumptions C11_header_complete_nested.

(* the relation for ordinary trees is the instance j = 0 of the general one *)
Theorem C11_virt_of_gen : forall t v, virt_of sha256 v t -> wf_ord t = true -> virt_gen sha256 0 v t.
Proof. exact (virt_of_gen sha256). Qed.
Print Assumptions C11_virt_of_gen.

(* what acceptance means: a Merkle-proof cell whose stored hash and whose child's level-0 hash are the
   expected hash; in particular it is never accepted against two different hashes, and a cell that is not a
   Merkle proof is never accepted *)
Theorem C11_accept_means : forall k h, check_proof k h = Ok tt ->
  k_ty k = ty_mproof /\ slice (k_data k) 1 33 = h /\
  exists r, k_ref k 0 = Ok r /\ get_hash r 0 = Ok h.
Proof. exact check_proof_inv. Qed.
Print Assumptions C11_accept_means.

Theorem C11_wrong_hash_rejected : forall k h h', check_proof k h = Ok tt -> h' <> h ->
  exists e, check_proof k h' = Err e.
Proof. exact wrong_hash_rejected. Qed.
Print Assumptions C11_wrong_hash_rejected.

(* SOUND: if the level-0 hash of a virtualised tree equals the hash of an ordinary tree t, then node by node
   it IS t with some subtrees replaced by pruned branches naming the hash of what they replace - or an
   explicit SHA-256 collision has been exhibited.  Any change to the data or structure of an unpruned cell,
   or a substituted pruned hash, therefore breaks acceptance. *)
Theorem C11_sound : forall v t, wf_virtual v = true -> wf_ord t = true ->
  s_hash_at sha256 v 0 = s_hash sha256 t -> covers sha256 v t \/ collision sha256.
Proof. exact (virtual_sound sha256 sha256_len sha256_ok). Qed.
Print Assumptions C11_sound.

(* SOUND, for every tree: v and t are any well-formed trees of any cell types (t may contain Merkle proofs /
   updates and pruned branches of its own).  If their level-0 hashes agree then node by node v is t - same
   type, same data - down to pruned branches, and j Merkle cells deep a pruned branch has the level-j hash of
   what stands opposite it (covers_gen, Spec/MerkleProof.v); or a SHA-256 collision has been exhibited. *)
Theorem C11_sound_nested : forall v j t, wf_exotic v = true -> wf_exotic t = true ->
  s_hash_at sha256 v j = s_hash_at sha256 t j -> covers_gen sha256 j v t \/ collision sha256.
Proof. exact (virtual_sound_nested sha256 sha256_len). Qed.
Print Assumptions C11_sound_nested.

(* end to end: a Merkle-proof cell over v that the library built and check_proof accepted against the
   level-0 hash of t *)
Theorem C11_accepted_sound_nested : forall bits v t k,
  wf_exotic v = true -> depth_okb sha256 v = true -> wf_exotic t = true ->
  build sha256 (Cell ty_mproof bits [v]) = Ok k -> check_proof k (s_hash_at sha256 t 0) = Ok tt ->
  covers_gen sha256 0 v t \/ collision sha256.
Proof. exact (accepted_sound_nested sha256 sha256_len). Qed.
Print Assumptions C11_accepted_sound_nested.

(* account-state check: acceptance means the claimed state's OWN hash is the committed one ... *)
Theorem C11_account_means : forall bp sp sa claimed root_hash,
  check_account_hashes bp sp sa claimed root_hash = Ok tt ->
  exists acc, k_ref sa 0 = Ok acc /\ get_hash acc 0 = Ok (k_hash claimed).
Proof. exact account_hashes_inv. Qed.
Print Assumptions C11_account_means.

(* ... so a pruned-branch cell can stand in for an ordinary account cell only through a collision *)
Theorem C11_account_pruned_rejected : forall c kc t,
  build sha256 c = Ok kc -> k_ty kc = ty_pruned -> wf_ord t = true ->
  k_hash kc = s_hash sha256 t -> collision sha256.
Proof. exact (pruned_impostor_collides sha256). Qed.
Print Assumptions C11_account_pruned_rejected.

Example C11_example :
  let leaf := Cell (-1) [true; true] [] in
  let t := Cell (-1) [false] [leaf; Cell (-1) [] [leaf]] in
  let v := Cell (-1) [false] [s_prune sha256 0 leaf; Cell (-1) [] [leaf]] in
  match build sha256 (s_mproof v (s_hash sha256 t) (s_depth t)) with
  | Ok k => check_proof k (s_hash sha256 t) = Ok tt /\ is_ok (check_proof k (s_hash sha256 leaf)) = false
  | Err _ => False
  end.
Proof. vm_compute. split; reflexivity. Qed.

(* a nested proof: an ordinary root over [an inner Merkle proof cell over an ordinary subtree with two
   leaves] and another ordinary child.  One leaf below the inner proof is pruned with mask 2 (s_prune 1), the
   other root child with mask 1 (s_prune 0).  The hypotheses of C11_complete_nested hold and the built proof
   is accepted; pruning the leaf below the inner proof with mask 1 instead is rejected. *)
Example C11_example_nested :
  let leaf1 := Cell (-1) [true; true] [] in
  let leaf2 := Cell (-1) [false; true; false] [] in
  let sub := Cell (-1) [true] [leaf1; leaf2] in
  let inner x := s_mproof x (s_hash_at sha256 sub 0) (s_depth_at sha256 sub 0) in
  let other := Cell (-1) [false; false] [leaf1] in
  let t := Cell (-1) [false] [inner sub; other] in
  let v := Cell (-1) [false] [inner (Cell (-1) [true] [s_prune sha256 1 leaf1; leaf2]); s_prune sha256 0 other] in
  let v1 := Cell (-1) [false] [inner (Cell (-1) [true] [s_prune sha256 0 leaf1; leaf2]); s_prune sha256 0 other] in
  let h := s_hash_at sha256 t 0 in
  let d := s_depth_at sha256 t 0 in
  (wf_exotic t = true /\ depth_okb sha256 t = true /\ s_mask t = 0 /\ d <= 1022) /\
  virt_gen sha256 0 v t /\
  match build sha256 (s_mproof v h d) with
  | Ok k => check_proof k h = Ok tt /\ is_ok (check_proof k (s_hash_at sha256 sub 0)) = false
  | Err _ => False
  end /\
  match build sha256 (s_mproof v1 h d) with
  | Ok k => check_proof k h = Err EProof
  | Err _ => False
  end.
Proof.
  intros leaf1 leaf2 sub inner other t v v1 h d.
  split; [|split].
  - vm_compute. repeat split; try reflexivity. intro E; discriminate E.
  - unfold v, t. apply VG_node. constructor; [|constructor; [|constructor]].
    + change (virt_gen sha256 0 (inner (Cell (-1) [true] [s_prune sha256 1 leaf1; leaf2])) (inner sub)).
      unfold inner, s_mproof, sub. apply VG_node. constructor; [|constructor].
      change (virt_gen sha256 1 (Cell (-1) [true] [s_prune sha256 1 leaf1; leaf2]) (Cell (-1) [true] [leaf1; leaf2])).
      apply VG_node. constructor; [|constructor; [|constructor]].
      * change (virt_gen sha256 1 (s_prune sha256 1 leaf1) leaf1). apply VG_prune; [apply Nat.leb_le; reflexivity|reflexivity].
      * apply VG_same.
    + change (virt_gen sha256 0 (s_prune sha256 0 other) other). apply VG_prune; [apply Nat.leb_le; reflexivity|reflexivity].
  - vm_compute. repeat split; reflexivity.
Qed.
