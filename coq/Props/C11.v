(* C11 - Merkle proof checks are complete and sound (sound = collision-relative, no axiom about SHA-256). *)
From Coq Require Import NArith ZArith List Bool.
From PTQ Require Import Base.Result Base.Bytes Base.Bits Base.Sha256 Model.Cell Model.Proof
  Spec.CellRepr Spec.CellWf Spec.MerkleProof Proofs.CellOrd Proofs.MerkleProofs.
Import ListNotations.
Local Open Scope N_scope.

(* COMPLETE: for every ordinary tree and every choice of pruned subtrees, the proof built by pruning is
   accepted against the original root hash, by the generic check and by the block-header check *)
Theorem C11_complete : forall v t, virt_of sha256 v t -> wf_ord t = true -> s_depth t <= 1022 ->
  exists k, build sha256 (s_mproof v (s_hash sha256 t) (s_depth t)) = Ok k /\
            check_proof k (s_hash sha256 t) = Ok tt.
Proof. exact (proof_complete sha256 sha256_len sha256_ok). Qed.
Print Assumptions C11_complete.

Theorem C11_header_complete : forall v t, virt_of sha256 v t -> wf_ord t = true -> s_depth t <= 1023 ->
  exists k, build sha256 v = Ok k /\ check_block_header_proof k (s_hash sha256 t) false = Ok None.
Proof. exact (header_complete sha256 sha256_len sha256_ok). Qed.
Print Assumptions C11_header_complete.

(* what acceptance means: a Merkle-proof cell whose stored hash and whose child's level-0 hash are the
   expected hash; in particular it is never accepted against two different hashes, and a cell that is not a
   Merkle proof is never accepted *)
Theorem C11_accept_means : forall k h, check_proof k h = Ok tt ->
  k_ty k = ty_mproof /\ slice (k_data k) 1 33 = h /\
  exists r, k_ref k 0 = Ok r /\ get_hash r 0 = Ok h.
Proof. exact check_proof_inv. Qed.
Print Assumptions C11_accept_means.

Theorem C11_wrong_hash_rejected : forall k h h', check_proof k h = Ok tt -> h' <> h ->
  exists e, check_proof k h' = Err e.
Proof. exact wrong_hash_rejected. Qed.
Print Assumptions C11_wrong_hash_rejected.

(* SOUND: if the level-0 hash of a virtualised tree equals the hash of an ordinary tree t, then node by node
   it IS t with some subtrees replaced by pruned branches naming the hash of what they replace - or an
   explicit SHA-256 collision has been exhibited.  Any change to the data or structure of an unpruned cell,
   or a substituted pruned hash, therefore breaks acceptance. *)
Theorem C11_sound : forall v t, wf_virtual v = true -> wf_ord t = true ->
  s_hash_at sha256 v 0 = s_hash sha256 t -> covers sha256 v t \/ collision sha256.
Proof. exact (virtual_sound sha256 sha256_len sha256_ok). Qed.
Print Assumptions C11_sound.

(* account-state check: acceptance means the claimed state's OWN hash is the committed one ... *)
Theorem C11_account_means : forall bp sp sa claimed root_hash,
  check_account_hashes bp sp sa claimed root_hash = Ok tt ->
  exists acc, k_ref sa 0 = Ok acc /\ get_hash acc 0 = Ok (k_hash claimed).
Proof. exact account_hashes_inv. Qed.
Print Assumptions C11_account_means.

(* ... so a pruned-branch cell can stand in for an ordinary account cell only through a collision *)
Theorem C11_account_pruned_rejected : forall c kc t,
  build sha256 c = Ok kc -> k_ty kc = ty_pruned -> wf_ord t = true ->
  k_hash kc = s_hash sha256 t -> collision sha256.
Proof. exact (pruned_impostor_collides sha256). Qed.
Print Assumptions C11_account_pruned_rejected.

Example C11_example :
  let leaf := Cell (-1) [true; true] [] in
  let t := Cell (-1) [false] [leaf; Cell (-1) [] [leaf]] in
  let v := Cell (-1) [false] [s_prune sha256 0 leaf; Cell (-1) [] [leaf]] in
  match build sha256 (s_mproof v (s_hash sha256 t) (s_depth t)) with
  | Ok k => check_proof k (s_hash sha256 t) = Ok tt /\ is_ok (check_proof k (s_hash sha256 leaf)) = false
  | Err _ => False
  end.
Proof. vm_compute. split; reflexivity. Qed.
