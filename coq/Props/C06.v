(* C06 - typed Builder stores and Slice loads are mutually inverse and bit-exact. *)
From Coq Require Import NArith ZArith List Bool.
From PTQ Require Import Base.Result Base.Bytes Base.Bits Model.Cell Model.Builder Model.Typed
  Spec.TlbPrim Spec.TlbVal Proofs.BuilderRT.
Import ListNotations.
Local Open Scope Z_scope.

(* the bits and references written are exactly the TL-B encoding of the values, in order *)
Theorem C06_bits : forall vs b0 b, Forall (fun x => tval_ok x = true) vs -> store_all b0 vs = Ok b ->
  b_bits b = b_bits b0 ++ concat (map s_enc vs) /\ b_refs b = b_refs b0 ++ concat (map s_refs_of vs).
Proof. exact store_all_bits. Qed.
Print Assumptions C06_bits.

(* loading the same types back returns the same values and consumes exactly what was written *)
Theorem C06_roundtrip : forall vs tb tr, Forall (fun x => tval_ok x = true) vs ->
  load_all (mkS (concat (map s_enc vs) ++ tb) (concat (map s_refs_of vs) ++ tr)) (map ty_of vs)
  = Ok (vs, mkS tb tr).
Proof. exact load_all_enc. Qed.
Print Assumptions C06_roundtrip.

(* through a cell: store, end_cell, begin_parse, load - nothing is left unread *)
Theorem C06_roundtrip_cell : forall vs b c, Forall (fun x => tval_ok x = true) vs ->
  store_all b_empty vs = Ok b -> b_end_cell b = Ok c ->
  load_all (begin_parse c) (map ty_of vs) = Ok (vs, mkS [] []).
Proof. exact roundtrip_cell. Qed.
Print Assumptions C06_roundtrip_cell.

(* a non-consuming peek returns what the consuming read returns *)
Theorem C06_peek : forall s t v s', load1 s t = Ok (v, s') -> preload1 s t = Ok v.
Proof. exact peek_agrees. Qed.
Print Assumptions C06_peek.

(* the byte lengths written for variable-length integers are minimal *)
Theorem C06_var_minimal : forall v,
  (0 <= v -> is_min_ulen v (ulen0 v)) /\ is_min_slen v (slen0 v).
Proof. exact var_len_minimal. Qed.
Print Assumptions C06_var_minimal.

(* int2ba / ba2int are big-endian two's complement, for every width *)
Theorem C06_int2ba : forall v w (signed : bool), 1 <= w ->
  (if signed then in_int w v else in_uint w v) = true ->
  int2ba v w signed = Ok (enc (Z.to_nat w) v) /\ ba2int (enc (Z.to_nat w) v) signed = Ok v.
Proof. exact int2ba_enc. Qed.
Print Assumptions C06_int2ba.

(* snake-chained byte strings of any length: what was stored is what is loaded *)
Theorem C06_snake : forall fuel bs b, bytes_ok bs ->
  b_store_snake fuel b_empty bs = Ok b ->
  s_load_snake fuel (mkS (b_bits b) (b_refs b)) = Ok bs.
Proof. exact snake_roundtrip. Qed.
Print Assumptions C06_snake.

(* and storing succeeds for every length whose chain respects the depth limit *)
Theorem C06_snake_total : forall bs, bytes_ok bs -> (length bs <= 127 * 1024)%nat ->
  exists b, b_store_snake (S (length bs)) b_empty bs = Ok b.
Proof. exact snake_total. Qed.
Print Assumptions C06_snake_total.

(* non-vacuity: a mixed list including a var-int whose top bit is set and an anycast address *)
Example C06_example :
  let vs := [VUint 7 100; VInt 9 (-200); VVarInt 4 128; VVarInt 4 (-129); VCoins 1000000000;
             VBytes [1; 2; 255]%N; VMaybeRef (Some (Cell (-1) [true] []));
             VAddr (AddrStd (Some (3, 5)) (-1) (repeat 7%N 32)); VAddr (AddrExt 5 3); VAddr AddrNone] in
  forallb tval_ok vs = true /\
  match store_all b_empty vs with
  | Ok b => load_all (mkS (b_bits b) (b_refs b)) (map ty_of vs) = Ok (vs, mkS [] [])
  | Err _ => False
  end.
Proof. vm_compute. split; reflexivity. Qed.

(* a zero-length external address (ExternalAddress(0), addr_extern$01 len = 0): the tag and the
   9-bit length are the whole encoding, the next field follows immediately, and loading returns
   the same values with nothing left; a non-zero value does not fit in 0 bits and is refused *)
Example C06_extern_len0 :
  let vs := [VAddr (AddrExt 0 0); VUint 3 5] in
  forallb tval_ok vs = true /\
  match store_all b_empty vs with
  | Ok b => b_bits b = [false; true] ++ repeat false 9 ++ [true; false; true] /\ b_refs b = [] /\
            load_all (mkS (b_bits b) (b_refs b)) (map ty_of vs) = Ok (vs, mkS [] []) /\
            preload1 (mkS (b_bits b) (b_refs b)) TAddr = Ok (VAddr (AddrExt 0 0))
  | Err _ => False
  end /\
  tval_ok (VAddr (AddrExt 3 0)) = false /\
  store1 b_empty (VAddr (AddrExt 3 0)) = Err EOverflow.
Proof. vm_compute. repeat split; reflexivity. Qed.
