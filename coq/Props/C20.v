(* C20 - ADNL channel crypto is symmetric between peers; signature and mnemonic glue.
   PARTIAL by nature: the cryptographic primitives are parameters; their laws appear as hypotheses. *)
From Coq Require Import NArith ZArith List Bool.
From PTQ Require Import Base.Result Base.Bytes Base.Bits Model.Adnl Proofs.AdnlProofs.
Import ListNotations.
Local Open Scope N_scope.

(* Two peers a and b with X25519 key pairs; a opens (local = a, peer = b) with ids (idA, idB) and b the
   mirror image.  Whatever the byte order of the two ids (a > b, a < b, a = b): b decrypts exactly what a
   encrypted, the packet carries the SHA-256 of the plaintext, and its key id is the one b expects. *)
Theorem C20_channel : forall H dh ctr xprivA xpubA xprivB xpubB idA idB m,
  (forall x, length (H x) = 32%nat) ->
  dh xprivA xpubB = dh xprivB xpubA -> length (dh xprivA xpubB) = 32%nat ->
  (forall k iv d, ctr k iv (ctr k iv d) = d) ->
  let A := mk_channel H dh xprivA xpubB idA idB in
  let B := mk_channel H dh xprivB xpubA idB idA in
  exists p, encrypt H ctr A m = Ok p /\
    packet_checksum p = H m /\
    packet_key_id p = server_key_id B /\
    decrypt ctr B (packet_payload p) (packet_checksum p) = Ok m.
Proof. exact channel_symmetric. Qed.
Print Assumptions C20_channel.

(* Python's bytes order is a total order: exactly one of <, =, > holds, and it is antisymmetric *)
Theorem C20_bytes_order : forall a b,
  bytes_cmp b a = CompOpp (bytes_cmp a b) /\ (bytes_cmp a b = Eq <-> a = b).
Proof. exact bytes_cmp_spec. Qed.
Print Assumptions C20_bytes_order.

(* the signing helper returns the 64-byte signature part; verification maps the exception to False *)
Theorem C20_sign_glue : forall crypto_sign verify_raw pk sk msg,
  (forall m, verify_raw pk m (firstn 64 (crypto_sign m sk)) = Some tt) ->
  verify_sign verify_raw pk msg (sign_message crypto_sign msg sk) = true.
Proof. exact sign_then_verify. Qed.
Print Assumptions C20_sign_glue.

(* a generated mnemonic is valid exactly when 24 words were requested *)
Theorem C20_mnemonic : forall basic fuel cand i ws,
  (forall k, length (cand k) = 24%nat) ->
  mnemonic_new basic fuel cand i = Ok ws -> mnemonic_is_valid basic ws = true.
Proof. exact mnemonic_new_valid. Qed.
Print Assumptions C20_mnemonic.

Theorem C20_random_index : forall r0 r1, secure_random_2048 r0 r1 < 2048.
Proof. exact random_index_bound. Qed.
Print Assumptions C20_random_index.

Example C20_example :
  let H := fun m : list N => firstn 32 (m ++ repeat 7 32) in
  let dh := fun a b : list N => map (fun p => N.lxor (fst p) (snd p)) (combine a b) in
  let ctr := fun k iv d : list N => map (fun p => N.lxor (fst p) (snd p)) (combine d (k ++ iv ++ k ++ iv)) in
  let A := mk_channel H dh (repeat 1 32) (repeat 2 32) [9] [3] in
  let B := mk_channel H dh (repeat 2 32) (repeat 1 32) [3] [9] in
  match encrypt H ctr A [1; 2; 3] with
  | Ok p => decrypt ctr B (packet_payload p) (packet_checksum p) = Ok [1; 2; 3]
  | Err _ => False
  end.
Proof. vm_compute. reflexivity. Qed.
