(* C18 - CRC-16/XMODEM and CRC-32C equal their bitwise definitions, for all byte strings. *)
From Coq Require Import NArith List.
From PTQ Require Import Base.Bytes Spec.Crc Model.Crc Proofs.CrcProofs.
Import ListNotations.
Local Open Scope N_scope.

Theorem C18_crc16 : forall bs, bytes_ok bs -> crc16 bs = s_crc16 bs.
Proof. exact crc16_correct. Qed.
Print Assumptions C18_crc16.

Theorem C18_crc32c : forall bs big, bytes_ok bs -> crc32c bs big = s_crc32c bs big.
Proof. exact crc32c_correct. Qed.
Print Assumptions C18_crc32c.

(* int.to_bytes never overflows: the registers stay within 2 resp. 4 bytes *)
Theorem C18_crc16_fits : forall bs, bytes_ok bs -> crc16_reg bs < 256 ^ 2.
Proof. exact crc16_value_fits. Qed.
Print Assumptions C18_crc16_fits.

Theorem C18_crc32c_fits : forall bs, bytes_ok bs -> crc32c_reg bs < 256 ^ 4.
Proof. exact crc32c_value_fits. Qed.
Print Assumptions C18_crc32c_fits.

(* non-vacuity and standard check values: "123456789" -> 0x31C3 / 0xE3069283 *)
Example C18_check16 : crc16 [49;50;51;52;53;54;55;56;57] = [0x31; 0xC3].
Proof. vm_compute. reflexivity. Qed.
Example C18_check32 : crc32c [49;50;51;52;53;54;55;56;57] true = [0xE3; 0x06; 0x92; 0x83].
Proof. vm_compute. reflexivity. Qed.
Example C18_check32_le : crc32c [49;50;51;52;53;54;55;56;57] false = [0x83; 0x92; 0x06; 0xE3].
Proof. vm_compute. reflexivity. Qed.
