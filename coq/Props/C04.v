(* C04 - emitted bag-of-cells bytes conform to the TON BoC wire format. *)
From Coq Require Import NArith ZArith List Bool.
From PTQ Require Import Base.Result Base.Bytes Base.Bits Base.Sha256 Model.Cell Model.Boc
  Spec.BocFormat Spec.BocProps Proofs.BocEmit.
Import ListNotations.
Local Open Scope N_scope.

(* the traversal used for serialisation lists every reachable cell exactly once, each before the cells it
   references (modulo hash collisions among the sub-cells) *)
Theorem C04_order : forall t k, build sha256 t = Ok k -> no_collision k ->
  let o := map k_tree (order k) in
  nodup_trees o = true /\
  (forall c, In c o <-> In c (subtrees t)) /\
  (forall i j ci cj, nth_error o i = Some ci -> nth_error o j = Some cj ->
     In cj (tl (subtrees ci)) -> (i < j)%nat) /\
  nth_error o 0 = Some t.
Proof. exact (order_spec sha256). Qed.
Print Assumptions C04_order.

(* for each of the 6 valid option sets the emitted bytes are accepted by the strict decoder, decode to the same
   DAG, contain each distinct cell exactly once and nothing unreachable *)
Theorem C04_conforms : forall t k idx crc cache,
  build sha256 t = Ok k -> boc_wf t = true -> no_collision k -> implb cache idx = true ->
  N.of_nat (length (order k)) < 2 ^ 24 ->
  exists d, to_boc k idx crc cache = Ok d /\
    s_decode d = Some [t] /\
    exists cs, s_all_cells d = Some cs /\ nodup_trees cs = true /\ (forall c, In c cs <-> In c (subtrees t)).
Proof. exact (to_boc_conforms sha256). Qed.
Print Assumptions C04_conforms.

(* width sufficiency of every header field: n fits in byte_len n bytes, for every n *)
Theorem C04_width : forall n, n < 256 ^ N.of_nat (byte_len n) /\ (n <> 0 -> (1 <= byte_len n)%nat).
Proof. exact byte_len_fits. Qed.
Print Assumptions C04_width.

Example C04_example :
  let t := Cell (-1) (to_bits 8 1) [Cell (-1) [true; false; true] [Cell (-1) [] []]; Cell (-1) [] []] in
  match build sha256 t with
  | Ok k => forallb (fun o => match o with (i, c, h) =>
              match to_boc k i c h with Ok d => match s_decode d with Some [t'] => tree_eqb t t' | _ => false end
                                   | Err _ => false end end)
              [(false,false,false); (false,true,false); (true,false,false); (true,true,false); (true,false,true); (true,true,true)] = true
  | Err _ => False
  end.
Proof. vm_compute. reflexivity. Qed.
