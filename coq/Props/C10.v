(* C10 - dictionaries use the canonical TON Hashmap encoding; the parsers accept every valid tree. *)
From Coq Require Import NArith ZArith List Bool.
From PTQ Require Import Base.Result Base.Bytes Base.Bits Model.Cell Model.Builder Model.Hashmap
  Spec.TlbPrim Spec.Hashmap Spec.HashmapAug Proofs.HmLabel Proofs.HmParse Proofs.HmParseAug Proofs.HmTree.
Import ListNotations.

(* the label kind chosen by the library equals the reference choice (shortest encoding, TON's
   tie-breaking), for every label length n and every remaining key length m - no bound *)
Theorem C10_label_kind : forall l m, (length l <= m)%nat -> detect_label_type l m = s_label_kind l m.
Proof. exact label_kind_spec. Qed.
Print Assumptions C10_label_kind.

(* the label writer emits exactly the HmLabel encoding of that kind *)
Theorem C10_write_label : forall l m b b', (length l <= m)%nat -> write_label l m b = Ok b' ->
  b_bits b' = b_bits b ++ s_label_bits (s_label_kind l m) l m /\ b_refs b' = b_refs b.
Proof. exact write_label_spec. Qed.
Print Assumptions C10_write_label.

(* the label reader decodes all three kinds *)
Theorem C10_read_label : forall kind l m rest refs, (length l <= m)%nat -> kind_ok kind l = true ->
  deserialize_hml (mkS (s_label_bits kind l m ++ rest) refs) (Z.of_nat m) = Ok (length l, l, mkS rest refs).
Proof. exact read_label_spec. Qed.
Print Assumptions C10_read_label.

(* the tree built from a key set is the canonical Patricia tree *)
Theorem C10_canonical : forall n src, src <> [] -> NoDup (map fst src) ->
  Forall (fun kv => length (fst kv) = n) src ->
  build_edge (S n) src = match s_patricia (S n) src with Some t => Ok t | None => Err EAssert end
  /\ s_patricia (S n) src <> None.
Proof. exact build_edge_patricia. Qed.
Print Assumptions C10_canonical.

(* the plain parser decodes every valid tree whatever label kinds it uses, and skips pruned subtrees *)
Theorem C10_parse_any : forall t n, (1 <= n <= 1023)%nat -> vtree_ok t n = true ->
  match cell_of t n with Cell ty bits refs =>
    parse_hashmap ty (mkS bits refs) (Z.of_nat n) = Ok (leaves_of t []) end.
Proof. exact parse_any_valid. Qed.
Print Assumptions C10_parse_any.

Example C10_example :
  let v := ([true; false; true], @nil cell) in
  let t := VFork [] KLong (VLeaf [false; false] KSame v) (VPruned (Cell 1 (to_bits 8 1 ++ to_bits 8 1 ++ repeat false 272) [])) in
  vtree_ok t 3 = true /\
  parse_hashmap (-1) (begin_parse (cell_of t 3)) 3 = Ok [([false; false; false], mkS (fst v) (snd v))].
Proof. vm_compute. split; reflexivity. Qed.

(* a label longer than the remaining key is refused by both parsers (plain: whatever the cell type, the
   label is read and checked before the type is looked at; augmented: on an ordinary cell) *)
Theorem C10_label_too_long_rejected : forall s m l suffix s1,
  deserialize_hml s m = Ok (l, suffix, s1) -> (m < Z.of_nat l)%Z ->
  (forall fuel ty prefix, parse_edge (S fuel) ty s m prefix = Err EValue) /\
  (forall fuel ylen prefix, parse_aug_edge (S fuel) ylen ty_ordinary s m prefix = Err EValue).
Proof. exact label_too_long_rejected. Qed.
Print Assumptions C10_label_too_long_rejected.

(* Hashmap 4, root cell 10 110 101010: hml_long, n = 6 (in bit_length(4) = 3 bits), six label bits *)
Example C10_label_too_long_example :
  let c := Cell ty_ordinary ([true; false] ++ [true; true; false] ++ [true; false; true; false; true; false]) [] in
  deserialize_hml (begin_parse c) 4 = Ok (6%nat, [true; false; true; false; true; false], mkS [] []) /\
  parse_hashmap ty_ordinary (begin_parse c) 4 = Err EValue /\
  hashmap_parse ty_ordinary (begin_parse c) 4 = Err EValue /\
  s_load_dict (mkS [true] [c]) 4 = Err EValue /\
  parse_aug_edge parse_fuel 0 ty_ordinary (begin_parse c) 4 [] = Err EValue.
Proof. vm_compute. repeat split; reflexivity. Qed.

(* ---- the augmented parser (parse_hashmap_aug; HashmapAug n X Y of block.tlb) ---- *)

(* it decodes every valid augmented tree whatever label kinds it uses: the values are the leaf slices after
   the extra, in key order; the extras come in post-order (left subtree, right subtree, fork); a pruned
   (non-ordinary) subtree is skipped before its label is looked at *)
Theorem C10_parse_aug_any : forall t n ylen prefix, (n <= 1023)%nat -> avtree_ok t n ylen = true ->
  match acell_of t n with Cell ty bits refs =>
    parse_aug_edge parse_fuel ylen ty (mkS bits refs) (Z.of_nat n) prefix
      = Ok (aleaves_of t prefix, aextras_of t) end.
Proof. exact parse_aug_any_valid. Qed.
Print Assumptions C10_parse_aug_any.

(* the augmented and the plain reading of the same tree find the same keys in the same order *)
Theorem C10_parse_aug_keys : forall t prefix,
  map fst (leaves_of (plain_of t) prefix) = map fst (aleaves_of t prefix).
Proof. exact plain_of_keys. Qed.
Print Assumptions C10_parse_aug_keys.

(* one extra per leaf and one per fork *)
Theorem C10_parse_aug_extras_count : forall t prefix, av_unpruned t = true ->
  (length (aextras_of t) + 1 = 2 * length (aleaves_of t prefix))%nat.
Proof. exact aextras_count. Qed.
Print Assumptions C10_parse_aug_extras_count.

(* HashmapAug 2 with 3-bit extras: keys 00 -> 1 (extra 001), 01 pruned, 1x: 10 -> (extra 010), 11 -> (extra 011) *)
Example C10_aug_example :
  let y (n : N) := to_bits 3 n in
  let v := ([true], @nil cell) in
  let t := AVFork [] KShort
             (AVFork [] KLong (AVLeaf [] KSame (y 1%N) v) (AVPruned (Cell 1 (to_bits 8 1 ++ to_bits 8 1 ++ repeat false 272) [])) (y 5%N))
             (AVFork [] KSame (AVLeaf [] KShort (y 2%N) v) (AVLeaf [] KLong (y 3%N) ([], [])) (y 6%N))
             (y 7%N) in
  avtree_ok t 2 3 = true /\
  parse_aug_edge parse_fuel 3 (-1) (begin_parse (acell_of t 2)) 2 [] =
    Ok ([([false; false], mkS [true] []); ([true; false], mkS [true] []); ([true; true], mkS [] [])],
        [y 1%N; y 5%N; y 2%N; y 3%N; y 6%N; y 7%N]).
Proof. vm_compute. split; reflexivity. Qed.
