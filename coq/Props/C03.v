(* C03 - bag-of-cells serialisation round-trips for every DAG and option set. *)
From Coq Require Import NArith ZArith List Bool.
From PTQ Require Import Base.Result Base.Bytes Base.Bits Base.Sha256 Model.Cell Model.Boc
  Spec.BocFormat Spec.BocProps Proofs.BocEmit Proofs.BocAccept Proofs.BocRoundtrip.
Import ListNotations.
Local Open Scope N_scope.

(* parsing what to_boc emitted yields one root with identical structure and identical hash, for every tree
   (DAG) of constructible cells and each of the 6 valid option sets *)
Theorem C03_roundtrip : forall t k idx crc cache,
  build sha256 t = Ok k -> boc_wf t = true -> no_collision k -> implb cache idx = true ->
  N.of_nat (length (order k)) < 2 ^ 24 ->
  exists d k', to_boc k idx crc cache = Ok d /\ deserialize sha256 d = Ok [k'] /\
               k_tree k' = t /\ k_hash k' = k_hash k.
Proof. exact (boc_roundtrip sha256). Qed.
Print Assumptions C03_roundtrip.

(* a constructed cell is determined by its tree: equal trees give equal cells, hence equal hashes *)
Theorem C03_tree_determines : forall t k, build sha256 t = Ok k -> k_tree k = t.
Proof. exact (build_tree sha256). Qed.
Print Assumptions C03_tree_determines.
