(* C03 - bag-of-cells serialisation round-trips for every DAG and option set. *)
From Coq Require Import NArith ZArith List Bool.
From PTQ Require Import Base.Result Base.Bytes Base.Bits Base.Sha256 Model.Cell Model.Boc
  Spec.BocFormat Spec.BocProps Proofs.BocEmit Proofs.BocAccept Proofs.BocRoundtrip.
Import ListNotations.
Local Open Scope N_scope.

(* parsing what to_boc emitted yields one root with identical structure and identical hash, for every tree
   (DAG) of constructible cells and each of the 6 valid option sets *)
Theorem C03_roundtrip : forall t k idx crc cache,
  build sha256 t = Ok k -> boc_wf t = true -> no_collision k -> implb cache idx = true ->
  N.of_nat (length (order k)) < 2 ^ 24 ->
  exists d k', to_boc k idx crc cache = Ok d /\ deserialize sha256 d = Ok [k'] /\
               k_tree k' = t /\ k_hash k' = k_hash k.
Proof. exact (boc_roundtrip sha256). Qed.
Print Assumptions C03_roundtrip.

(* a constructed cell is determined by its tree: equal trees give equal cells, hence equal hashes *)
Theorem C03_tree_determines : forall t k, build sha256 t = Ok k -> k_tree k = t.
Proof. exact (build_tree sha256). Qed.
Print Assumptions C03_tree_determines.

(* ---- last clause: the bytes, hex-text and base64-text forms of one serialisation parse alike ---- *)
From PTQ Require Import Model.Address Proofs.BocForms.

(* Boc.__init__ reads bytes.hex() text back as the same bytes *)
Theorem C03_hex_norm : forall b, bytes_ok b -> boc_normalize (InStr (hex_text b)) = Ok b.
Proof. exact hex_norm. Qed.
Print Assumptions C03_hex_norm.

(* Boc.__init__ reads base64.b64encode text of anything that starts with one of the three magics back as
   the same bytes (bytes.fromhex raises within the first two characters "te" / "aP" / "rM", and the
   non-validating base64 decoder inverts the encoder for every length) *)
Theorem C03_b64_norm : forall m r,
  In m [boc_magic; boc_magic_idx; boc_magic_idx_crc] -> bytes_ok r ->
  boc_normalize (InStr (b64_text (m ++ r))) = Ok (m ++ r).
Proof. exact b64_norm_magic. Qed.
Print Assumptions C03_b64_norm.

(* whatever to_boc emits, as bytes, as hex text or as base64 text, is normalised to the same bytes; the Cell
   entry point returns the cell that was serialised, the Slice and Builder entry points its bits and
   references (for an ordinary root the Builder conversion succeeds) *)
Theorem C03_forms : forall t k idx crc cache,
  build sha256 t = Ok k -> boc_wf t = true -> no_collision k -> implb cache idx = true ->
  N.of_nat (length (order k)) < 2 ^ 24 ->
  exists d, to_boc k idx crc cache = Ok d /\ k_tree k = t /\
    (forall x, In x [InBytes d; InStr (hex_text d); InStr (b64_text d)] ->
       boc_normalize x = Ok d /\
       one_from_boc_in sha256 x = Ok k /\
       slice_one_from_boc_in sha256 x = Ok (k_bits k, k_refs k) /\
       builder_one_from_boc_in sha256 x = cell_to_builder k) /\
    (let 'Cell ty bits _ := t in
     ty = ty_ordinary -> cell_to_builder k = Ok (bits, k_refs k)).
Proof. exact (boc_forms sha256). Qed.
Print Assumptions C03_forms.
