(* C01 - cell hash and depth are the TON representation hash and depth, for every ordinary cell tree.
   Everything is proved for an arbitrary hash function H with 32-byte output and then instantiated
   with the executable SHA-256 of Base/Sha256.v. *)
From Coq Require Import NArith ZArith List.
From PTQ Require Import Base.Result Base.Bytes Base.Bits Base.Sha256 Model.Cell Spec.CellRepr Spec.CellWf Model.Inst
  Proofs.CellOrd Spec.MerkleProof Proofs.HashInjective Proofs.CellReprAll.
Import ListNotations.
Local Open Scope N_scope.

(* well-formed ordinary tree: every node is ordinary, has <= 1023 bits and <= 4 references *)
(* (wf_ord is defined in Proofs/CellOrd.v as a boolean predicate) *)

(* hash, depth, level mask and all four per-level readings equal the specification *)
Theorem C01_hash_depth : forall c, wf_ord c = true -> s_depth c <= 1023 ->
  exists k, build sha256 c = Ok k /\
    k_ty k = (-1)%Z /\ k_mask k = 0 /\
    k_hashes k = [s_hash sha256 c] /\ k_depths k = [s_depth c] /\
    k_hash k = s_hash sha256 c /\
    (forall l, get_hash k l = Ok (s_hash sha256 c)) /\
    (forall l, get_depth k l = Ok (s_depth c)).
Proof. exact (ord_hash_depth sha256 sha256_len). Qed.
Print Assumptions C01_hash_depth.

(* the depth limit: a tree deeper than 1023 cannot be constructed *)
Theorem C01_depth_limit : forall c, wf_ord c = true -> 1024 <= s_depth c ->
  build sha256 c = Err ECell.
Proof. exact (ord_depth_limit sha256 sha256_len). Qed.
Print Assumptions C01_depth_limit.

(* the explicitly recomputed representation hash agrees with the cached one *)
Theorem C01_repr_agrees : forall c k, wf_ord c = true -> build sha256 c = Ok k ->
  calculate_representation_hash sha256 k = Ok (k_hash k).
Proof. exact (ord_repr_agrees sha256 sha256_len). Qed.
Print Assumptions C01_repr_agrees.

(* ... and this holds beyond ordinary trees: for every constructed cell of a spec-valid tree of ordinary, pruned-branch,
   library, Merkle-proof and Merkle-update cells, whatever its level (an ordinary cell above a pruned branch has one hash
   per significant level, each chained on the previous one; the recomputation takes the previous hash as payload) *)
Theorem C01_repr_agrees_all : forall c k, wf_exotic c = true -> build sha256 c = Ok k ->
  calculate_representation_hash sha256 k = Ok (k_hash k).
Proof. exact (repr_agrees_all sha256). Qed.
Print Assumptions C01_repr_agrees_all.

(* non-vacuity: an ordinary cell of level 1 (two hashes) above a mask-1 pruned branch *)
Example C01_repr_agrees_all_example :
  let t := Cell (-1) [true] [] in
  let p := s_prune sha256 0 t in
  let body := Cell (-1) [false; true] [p; Cell (-1) [] []] in
  wf_exotic body = true /\ s_mask body = 1 /\
  match build sha256 body with
  | Ok k => length (k_hashes k) = 2%nat /\ calculate_representation_hash sha256 k = Ok (k_hash k)
  | Err _ => False
  end.
Proof. vm_compute. repeat split; reflexivity. Qed.

(* the data bytes hashed are the data padded with the completion tag, for every bit length *)
Theorem C01_padding : forall bits, data_bytes bits = bits_to_bytes (s_pad bits).
Proof. exact data_bytes_pad. Qed.
Print Assumptions C01_padding.

(* the second descriptor byte, for every bit length up to 1023 *)
Theorem C01_d2 : forall b, (b <= 1023)%nat -> bits_descriptor b = Ok (s_d2 b).
Proof. exact bits_descriptor_spec. Qed.
Print Assumptions C01_d2.

(* __eq__ is equality of hashes; __hash__ collides exactly when hashes are equal *)
Theorem C01_eq : forall a b, cell_eqb a b = true <-> k_hash a = k_hash b.
Proof. exact cell_eqb_iff. Qed.
Print Assumptions C01_eq.

Theorem C01_pyhash : forall a b,
  bytes_ok (k_hash a) -> bytes_ok (k_hash b) -> length (k_hash a) = length (k_hash b) ->
  (cell_pyhash a = cell_pyhash b <-> k_hash a = k_hash b).
Proof. exact cell_pyhash_iff. Qed.
Print Assumptions C01_pyhash.

(* non-vacuity: a three-level tree with a 1023-bit node, a 0-bit node and a 5-bit node *)
Example C01_example :
  let t := Cell (-1) (repeat true 1023) [Cell (-1) [] []; Cell (-1) [true;false;true;true;false] [Cell (-1) [] []]] in
  wf_ord t = true /\ s_depth t = 2 /\ rmap k_hash (build sha256 t) = Ok (s_hash sha256 t).
Proof. vm_compute. repeat split; reflexivity. Qed.

(* ---- structural reading: equal hashes mean equal trees, unless SHA-256 collides ---- *)
(* [collision sha256] : exists m1 m2, m1 <> m2 /\ sha256 m1 = sha256 m2 (Spec/MerkleProof.v) *)
Theorem C01_equal_hash_equal_cell : forall c1 c2, wf_ord c1 = true -> wf_ord c2 = true ->
  s_hash sha256 c1 = s_hash sha256 c2 -> c1 = c2 \/ collision sha256.
Proof. exact (ord_hash_injective sha256 sha256_len). Qed.
Print Assumptions C01_equal_hash_equal_cell.

(* the same on constructed cells: equal Cell.hash of two built trees *)
Theorem C01_equal_hash_equal_cell_built : forall c1 c2 k1 k2, wf_ord c1 = true -> wf_ord c2 = true ->
  build sha256 c1 = Ok k1 -> build sha256 c2 = Ok k2 ->
  k_hash k1 = k_hash k2 -> c1 = c2 \/ collision sha256.
Proof. exact (build_hash_injective sha256 sha256_len). Qed.
Print Assumptions C01_equal_hash_equal_cell_built.

(* __eq__ in both directions, read on the trees the two cells were built from *)
Theorem C01_equal_hash_equal_cell_eq : forall c1 c2 k1 k2, wf_ord c1 = true -> wf_ord c2 = true ->
  build sha256 c1 = Ok k1 -> build sha256 c2 = Ok k2 ->
  (c1 = c2 -> cell_eqb k1 k2 = true) /\ (cell_eqb k1 k2 = true -> c1 = c2 \/ collision sha256).
Proof. exact (build_eqb_structural sha256 sha256_len). Qed.
Print Assumptions C01_equal_hash_equal_cell_eq.

(* without a collision the two readings of "equal" coincide *)
Theorem C01_equal_hash_iff_equal_cell : forall c1 c2, wf_ord c1 = true -> wf_ord c2 = true ->
  ~ collision sha256 -> (s_hash sha256 c1 = s_hash sha256 c2 <-> c1 = c2).
Proof. exact (ord_hash_iff sha256 sha256_len). Qed.
Print Assumptions C01_equal_hash_iff_equal_cell.

(* all cell types (ordinary, pruned branch, library, Merkle proof / update), at the top level 3:
   specification hash, and Cell.hash of two built trees *)
Theorem C01_equal_hash_equal_cell_exotic : forall c1 c2 l, wf_exotic c1 = true -> wf_exotic c2 = true ->
  (3 <= l)%nat -> s_hash_at sha256 c1 l = s_hash_at sha256 c2 l -> c1 = c2 \/ collision sha256.
Proof. exact (exotic_hash_injective sha256 sha256_len). Qed.
Print Assumptions C01_equal_hash_equal_cell_exotic.

Theorem C01_equal_hash_equal_cell_exotic_built : forall c1 c2 k1 k2,
  wf_exotic c1 = true -> depth_okb sha256 c1 = true -> wf_exotic c2 = true -> depth_okb sha256 c2 = true ->
  build sha256 c1 = Ok k1 -> build sha256 c2 = Ok k2 ->
  k_hash k1 = k_hash k2 -> c1 = c2 \/ collision sha256.
Proof. exact (exotic_build_khash_injective sha256 sha256_len). Qed.
Print Assumptions C01_equal_hash_equal_cell_exotic_built.

(* non-vacuity: a and b are the same tree written in two ways (equal, equal hashes); c differs from a
   in one data bit of the child and has a different hash *)
Example C01_equal_hash_example :
  let a := Cell (-1) (to_bits 8 165) [Cell (-1) (repeat true 3) []] in
  let b := Cell (-1) [true;false;true;false;false;true;false;true] [Cell (-1) [true;true;true] []] in
  let c := Cell (-1) (to_bits 8 165) [Cell (-1) [true;true;false] []] in
  wf_ord a = true /\ wf_ord b = true /\ wf_ord c = true /\ a = b /\ a <> c /\
  match build sha256 a, build sha256 b, build sha256 c with
  | Ok ka, Ok kb, Ok kc =>
      cell_eqb ka kb = true /\ k_hash ka = k_hash kb /\ cell_eqb ka kc = false /\ k_hash ka <> k_hash kc
  | _, _, _ => False
  end.
Proof.
  vm_compute.
  repeat match goal with |- _ /\ _ => split end; try reflexivity; intro E; discriminate E.
Qed.
