(* C07 - cell capacity, value ranges and read bounds are enforced. *)
From Coq Require Import NArith ZArith List Bool.
From PTQ Require Import Base.Result Base.Bytes Base.Bits Model.Cell Model.Builder Model.Typed
  Spec.CellRepr Spec.TlbPrim Spec.TlbVal Proofs.BuilderCap.
Import ListNotations.
Local Open Scope Z_scope.

(* no sequence of store operations yields more than 1023 bits or 4 references *)
Theorem C07_capacity : forall ops b, srun b_empty ops = Ok b ->
  (length (b_bits b) <= 1023)%nat /\ (length (b_refs b) <= 4)%nat.
Proof. exact srun_capacity. Qed.
Print Assumptions C07_capacity.

(* a cell that end_cell returns respects all three limits *)
Theorem C07_end_cell : forall ops b c, srun b_empty ops = Ok b -> b_end_cell b = Ok c ->
  match c with Cell _ bits refs =>
    (length bits <= 1023)%nat /\ (length refs <= 4)%nat /\ (s_depth c <= 1023)%N end.
Proof. exact end_cell_limits. Qed.
Print Assumptions C07_end_cell.

(* a value outside the stated width is refused *)
Theorem C07_range : forall b x,
  match x with
  | VUint w v => 1 <= w /\ in_uint w v = false
  | VInt w v => 1 <= w /\ in_int w v = false
  | VVarUint k v => 1 <= k /\ (v < 0 \/ 2 ^ k <= ulen0 v)
  | VVarInt k v => 1 <= k /\ 2 ^ k <= slen0 v
  | VCoins v => v < 0 \/ 16 <= ulen0 v
  | _ => False
  end -> exists e, store1 b x = Err e.
Proof. exact store_out_of_range. Qed.
Print Assumptions C07_range.

(* a store that fits the remaining capacity is never refused *)
Theorem C07_no_spurious : forall b o, sop_ok o = true ->
  (length (b_bits b) + need_bits o <= 1023)%nat -> (length (b_refs b) + need_refs o <= 4)%nat ->
  exists b', sstep b o = Ok b'.
Proof. exact store_fits. Qed.
Print Assumptions C07_no_spurious.

(* and one that exceeds it is refused.  The builder must itself be within the limits (every builder
   produced by stores is, C07_capacity): without that the statement is false, because store_ref never
   looks at the bit count and store_bit(s) never looks at the reference count
   (BuilderCap.cap_overflow_cex1 / cap_overflow_cex2). *)
Theorem C07_overflow : forall b o,
  (length (b_bits b) <= 1023)%nat -> (length (b_refs b) <= 4)%nat -> sop_ok o = true ->
  (1023 < length (b_bits b) + need_bits o)%nat \/ (4 < length (b_refs b) + need_refs o)%nat ->
  exists e, sstep b o = Err e.
Proof. exact store_overflows. Qed.
Print Assumptions C07_overflow.

(* the same for every builder reachable from the empty one *)
Theorem C07_overflow_reachable : forall ops b o, srun b_empty ops = Ok b -> sop_ok o = true ->
  (1023 < length (b_bits b) + need_bits o)%nat \/ (4 < length (b_refs b) + need_refs o)%nat ->
  exists e, sstep b o = Err e.
Proof. exact store_overflows_reachable. Qed.
Print Assumptions C07_overflow_reachable.

(* a consuming read returns only what it actually consumed: the value is a function of the consumed
   prefix, and that prefix is really there - never fabricated, never truncated *)
Theorem C07_no_fabrication : forall s t v s', load1 s t = Ok (v, s') ->
  exists pre rpre, s_bits s = pre ++ s_bits s' /\ s_refs s = rpre ++ s_refs s' /\
                   load1 (mkS pre rpre) t = Ok (v, mkS [] []).
Proof. exact load_consumes_prefix. Qed.
Print Assumptions C07_no_fabrication.

(* reading more bits or references than remain raises *)
Theorem C07_overread : forall s,
  (forall n, (length (s_bits s) < n)%nat ->
     (exists e, s_load_bits s n = Err e) /\ (exists e, s_load_uint s n = Err e) /\
     (exists e, s_load_int s n = Err e)) /\
  (forall n, (length (s_bits s) < n * 8)%nat -> exists e, s_load_bytes s n = Err e) /\
  (s_bits s = [] -> exists e, s_load_bit s = Err e) /\
  (s_refs s = [] -> exists e, s_load_ref s = Err e).
Proof. exact overread_raises. Qed.
Print Assumptions C07_overread.

Example C07_example :
  let b := mkB (repeat true 1000) [Cell (-1) [] []; Cell (-1) [] []; Cell (-1) [] []] in
  is_ok (sstep b (OVal (VUint 23 5))) = true /\ is_ok (sstep b (OVal (VUint 24 5))) = false /\
  is_ok (sstep b (OSlice (mkS [true] [Cell (-1) [] []]))) = true /\
  is_ok (sstep b (OSlice (mkS [true] [Cell (-1) [] []; Cell (-1) [] []]))) = false.
Proof. vm_compute. repeat split; reflexivity. Qed.
