(* C09 - dictionary (HashMap) serialise/parse round trip. *)
From Coq Require Import NArith ZArith List Bool Permutation.
From PTQ Require Import Base.Result Base.Bytes Base.Bits Model.Cell Model.Builder Model.Hashmap
  Spec.TlbPrim Spec.Hashmap Proofs.HmLabel Proofs.HmParse Proofs.HmTree Proofs.HmRoundtrip.
Import ListNotations.

(* serialising a non-empty map and parsing the cell returns exactly the same pairs, keys ascending *)
Theorem C09_roundtrip : forall n src c, (1 <= n <= 1023)%nat -> src <> [] -> NoDup (map fst src) ->
  Forall (fun kv => length (fst kv) = n) src ->
  serialize_dict src n = Ok (Some c) ->
  match c with Cell ty bits refs =>
    parse_hashmap ty (mkS bits refs) (Z.of_nat n)
    = Ok (map (fun kv => (fst kv, mkS (fst (snd kv)) (snd (snd kv)))) (sort_kvs src)) end.
Proof. exact dict_roundtrip. Qed.
Print Assumptions C09_roundtrip.

(* the result does not depend on insertion order *)
Theorem C09_order_indep : forall n src1 src2, NoDup (map fst src1) ->
  Forall (fun kv => length (fst kv) = n) src1 -> Permutation src1 src2 ->
  serialize_dict src1 n = serialize_dict src2 n.
Proof. exact serialize_order_indep. Qed.
Print Assumptions C09_order_indep.

(* the empty map is 'no cell'; the optional-dictionary reference round-trips *)
Theorem C09_empty : forall n, serialize_dict [] n = Ok None.
Proof. reflexivity. Qed.
Print Assumptions C09_empty.
Theorem C09_maybe : forall oc b b' tb tr n, b_store_maybe_ref b oc = Ok b' ->
  exists hb hr, b_bits b' = b_bits b ++ hb /\ b_refs b' = b_refs b ++ hr /\
  s_load_dict (mkS (hb ++ tb) (hr ++ tr)) n =
    match oc with
    | None => Ok (None, mkS tb tr)
    | Some (Cell ty bits refs) => rmap (fun r => (r, mkS tb tr)) (hashmap_parse ty (mkS bits refs) n)
    end.
Proof. exact maybe_dict_roundtrip. Qed.
Print Assumptions C09_maybe.

(* keys that do not fit the declared width - too large or negative - are rejected *)
Theorem C09_key_range : forall n k, (k < 0 \/ 2 ^ Z.of_nat n <= k)%Z <-> key_bits n k = Err EDict.
Proof. exact key_range_iff. Qed.
Print Assumptions C09_key_range.

(* and in-range keys become their zero-padded binary form, injectively *)
Theorem C09_key_bits : forall n k, (0 <= k < 2 ^ Z.of_nat n)%Z ->
  exists bits, key_bits n k = Ok bits /\ length bits = n /\ Z.of_N (of_bits bits) = k.
Proof. exact key_bits_spec. Qed.
Print Assumptions C09_key_bits.

Example C09_example :
  let v1 := ([true], @nil cell) in let v2 := ([false; false], [Cell (-1) [] []]) in
  let src := [([true; false; true; true], v1); ([false; false; true; false], v2); ([true; false; false; false], v1)] in
  match serialize_dict src 4 with
  | Ok (Some (Cell ty bits refs)) =>
      parse_hashmap ty (mkS bits refs) 4 =
      Ok (map (fun kv => (fst kv, mkS (fst (snd kv)) (snd (snd kv)))) (sort_kvs src))
  | _ => False
  end.
Proof. vm_compute. reflexivity. Qed.
