(* C14 - TL serialisation: the bytes are the TL binary encoding, parsing them returns the value and consumes
   exactly all bytes; constructor ids are the CRC-32 of the schema lines; block-identifier helpers are lossless. *)
From Coq Require Import NArith ZArith List Bool String.
From PTQ Require Import Base.Result Base.Bytes Model.Tl Spec.TlSpec Gen.TlSchemaTable Proofs.TlProofs.
Import ListNotations.

(* 1. every constructor id of the generated table is the CRC-32 of its (cleared) schema line *)
Theorem C14_ids :
  forallb (fun p : string * list N => nlist_eqb (crc32_be (bytes_of_string (clear_schema (fst p)))) (snd p)) tl_lines = true.
Proof. exact ids_sweep. Qed.
Print Assumptions C14_ids.

Theorem C14_ids_all : forall line id, In (line, id) tl_lines -> crc32_be (bytes_of_string (clear_schema line)) = id.
Proof. exact ids_all. Qed.
Print Assumptions C14_ids_all.

(* zlib.crc32(b"123456789") = 0xCBF43926; the two Bool constructors *)
Example C14_crc_check : crc32_be [49;50;51;52;53;54;55;56;57]%N = [0xCB; 0xF4; 0x39; 0x26]%N.
Proof. vm_compute. reflexivity. Qed.
Example C14_id_boolTrue : s_ctor_id "boolTrue = Bool;" = [0x99; 0x72; 0x75; 0xb5]%N /\ s_bool true = rev (s_ctor_id "boolTrue = Bool;").
Proof. vm_compute. split; reflexivity. Qed.
Example C14_id_boolFalse : s_ctor_id "boolFalse = Bool;" = [0xbc; 0x79; 0x97; 0x37]%N /\ s_bool false = rev (s_ctor_id "boolFalse = Bool;").
Proof. vm_compute. split; reflexivity. Qed.

(* 5. BlockIdExt.to_bytes / from_bytes *)
Theorem C14_blockid : forall wc shard seqno root file d,
  block_id_to_bytes wc shard seqno root file = Ok d ->
  List.length root = 32%nat -> List.length file = 32%nat ->
  block_id_from_bytes d = (wc, shard, seqno, root, file) /\ List.length d = 80%nat.
Proof. exact blockid_roundtrip. Qed.
Print Assumptions C14_blockid.

Example C14_blockid_ex :
  block_id_to_bytes (-1) (-9223372036854775808) 3 (repeat 7%N 32) (repeat 9%N 32)
  = Ok ([255;255;255;255; 128;0;0;0;0;0;0;0; 0;0;0;3]%N ++ repeat 7%N 32 ++ repeat 9%N 32).
Proof. vm_compute. reflexivity. Qed.

(* 3. int.to_bytes(len, 'little', signed=True) / int.from_bytes, every length *)
Theorem C14_int : forall len z bs,
  int_le_signed len z = Ok bs ->
  int_of_le_signed bs = z /\ List.length bs = len /\ bs = s_int_le len z.
Proof. exact int_roundtrip. Qed.
Print Assumptions C14_int.

Theorem C14_int_total : forall len z, s_int_range len z = true -> int_le_signed len z = Ok (s_int_le len z).
Proof. exact int_le_signed_spec. Qed.
Print Assumptions C14_int_total.

Example C14_int_ex : int_le_signed 4 (-2) = Ok [254; 255; 255; 255]%N /\ int_le_signed 8 (2 ^ 63 - 1) = Ok [255;255;255;255;255;255;255;127]%N
                     /\ int_le_signed 4 (2 ^ 31) = Err EOverflow.
Proof. vm_compute. repeat split; reflexivity. Qed.

(* 2. bytes / string framing, every length below 2^24 (the 253 / 254 boundary and the padding included) *)
Theorem C14_frame : forall l, (N.of_nat (List.length l) < 16777216)%N ->
  (List.length (frame_bytes l) mod 4 = 0)%nat /\
  frame_bytes l = s_frame l /\
  forall pre rest,
    let d := (pre ++ frame_bytes l ++ rest)%list in
    exists attach,
      dprefix d (List.length pre) = (List.length l, attach, (List.length pre + attach)%nat) /\
      bslice d (List.length pre + attach) (List.length pre + attach + List.length l) = l /\
      dskip (List.length l) attach (List.length pre + attach + List.length l) =
        (List.length pre + List.length (frame_bytes l))%nat.
Proof.
  intros l Hl. split; [apply frame_length_mod4|split; [apply frame_bytes_spec|]].
  intros pre rest. apply frame_parse. exact Hl.
Qed.
Print Assumptions C14_frame.

(* the same on the model itself: a constructor with a single bytes field, any table, every length below 2^24 *)
Theorem C14_frame_model : forall tbl c fld sc l fuel,
  c_args c = [mkArg fld None sc TBytes] ->
  List.length (c_id c) = 4%nat ->
  by_name tbl (c_name c) = Some c ->
  by_id tbl (c_id c) = Some c ->
  bytes_okb l = true ->
  (N.of_nat (List.length l) < 16777216)%N ->
  by_id tbl (rev (firstn 4 l)) = None ->
  (2 <= fuel)%nat ->
  serialize tbl fuel (c_name c) [(fld, TVBytes l)] = Ok (rev (c_id c) ++ frame_bytes l)%list /\
  deserialize tbl fuel (rev (c_id c) ++ frame_bytes l)%list
    = Ok (TVObj (c_name c) [(fld, TVBytes l)], (4 + List.length (frame_bytes l))%nat).
Proof. exact frame_model. Qed.
Print Assumptions C14_frame_model.

Example C14_frame_253 : frame_bytes (repeat 1%N 253) = (253 :: repeat 1 253 ++ [0; 0])%N.
Proof. vm_compute. reflexivity. Qed.
Example C14_frame_254 : frame_bytes (repeat 1%N 254) = ([254; 254; 0; 0] ++ repeat 1 254 ++ [0; 0])%N.
Proof. vm_compute. reflexivity. Qed.

(* table facts, by computation on the GENERATED table: every id has 4 bytes; every constructor has distinct field
   names and every conditional field is also conditional for serialize; 19 constructor names occur more than once
   (a Python dict keeps the last); only 5 entries are shadowed by a different later entry; whatever a name resolves
   to, its id resolves back to it *)
Theorem C14_table_facts :
  forallb (fun c => (List.length (c_id c) =? 4)%nat) tl_table &&
  forallb ctor_okb tl_table &&
  list_string_eqb (duplicate_names tl_table) tl_duplicate_names &&
  list_string_eqb (map c_name (filter (fun c => negb (resolves_b tl_table c)) tl_table)) tl_shadowed_names &&
  tbl_okb tl_table = true.
Proof. exact table_facts. Qed.
Print Assumptions C14_table_facts.

Theorem C14_table_dups :
  duplicate_names tl_table = tl_duplicate_names /\
  tl_duplicate_names =
    ["int"; "long"; "true"; "int128"; "tonNode.blockId"; "tonNode.blockIdExt"; "tonNode.zeroStateIdExt";
     "adnl.message.query"; "adnl.message.answer"; "double"; "string"; "object"; "function"; "bytes"; "boolTrue";
     "boolFalse"; "vector"; "int256"; "ton.blockId"]%string /\
  tl_shadowed_names = ["bytes"; "int256"; "bytes"; "int256"; "ton.blockId"]%string.
Proof. exact (conj table_dups (conj eq_refl eq_refl)). Qed.
Print Assumptions C14_table_dups.

(* the uniqueness hypotheses of C14_roundtrip_flat hold for every constructor whose name is not duplicated *)
Theorem C14_table_resolves : forall c, In c tl_table -> existsb (String.eqb (c_name c)) tl_duplicate_names = false ->
  by_name tl_table (c_name c) = Some c /\ by_id tl_table (c_id c) = Some c /\ ctor_okb c = true.
Proof. exact table_resolves. Qed.
Print Assumptions C14_table_resolves.

Theorem C14_table_ok : forall n c, by_name tl_table n = Some c -> ctor_okb c = true /\ by_id tl_table (c_id c) = Some c.
Proof. exact table_ok. Qed.
Print Assumptions C14_table_ok.

(* 4. round trip for constructors whose fields are all unconditional and of type Bool / # / int / long / int128 /
   int256 / bytes / string, generic in the table.  flat_fields tbl args fs es: fs are the fields in order, each
   well-typed (s_enc tbl 1 = Some e) and not auto-captured, es their spec encodings. *)
Theorem C14_roundtrip_flat : forall tbl c fs es fuel,
  flat_ctor c = true ->
  NoDup (map a_field (c_args c)) ->
  List.length (c_id c) = 4%nat ->
  by_name tbl (c_name c) = Some c ->
  by_id tbl (c_id c) = Some c ->
  flat_fields tbl (c_args c) fs es ->
  (2 <= fuel)%nat ->
  let bytes := (rev (c_id c) ++ List.concat es)%list in
  serialize tbl fuel (c_name c) fs = Ok bytes /\
  deserialize tbl fuel bytes = Ok (TVObj (c_name c) fs, List.length bytes) /\
  s_encode tbl 2 (c_name c) fs = Some bytes.
Proof. exact roundtrip_flat. Qed.
Print Assumptions C14_roundtrip_flat.

(* liteServer.error code:int message:string, on the generated table *)
Example C14_flat_ex :
  let fs := [("code", TVInt (-400)); ("message", TVStr [104; 105]%N)]%string in
  let bytes := [0x48; 0xe1; 0xa9; 0xbb; 0x70; 0xfe; 0xff; 0xff; 2; 104; 105; 0]%N in
  serialize tl_table 2 "liteServer.error" fs = Ok bytes /\
  deserialize tl_table 2 bytes = Ok (TVObj "liteServer.error" fs, 12%nat) /\
  s_encode tl_table 2 "liteServer.error" fs = Some bytes.
Proof. vm_compute. repeat split; reflexivity. Qed.

(* the guard is necessary: a bytes payload that starts with a known constructor id comes back parsed
   (adnl.message.answer query_id:int256 answer:bytes with answer = the 4 bytes of liteServer.currentTime + 4 more) *)
Example C14_auto_capture_ex :
  let payload := [0xe9; 0x53; 0x00; 0x0d]%N in
  let fs := [("query_id", TVHex (repeat 0%N 32)); ("answer", TVBytes (rev payload ++ [1; 0; 0; 0]%N))]%string in
  no_auto_capture tl_table (TVObj "adnl.message.answer" fs) = false /\
  match serialize tl_table 3 "adnl.message.answer" fs with
  | Ok bytes =>
      deserialize tl_table 3 bytes =
        Ok (TVObj "adnl.message.answer"
              [("query_id", TVHex (repeat 0%N 32)); ("answer", TVObj "liteServer.currentTime" [("now", TVInt 1)])]%string,
            List.length bytes)
  | Err _ => False
  end.
Proof. vm_compute. split; reflexivity. Qed.

(* 4'. round trip for ALL supported values, generic in the table: unconditional and conditional fields (present iff
   the bit of the preceding mode / flags field is set, flags >= 0), nested bare and boxed objects, vectors of base
   types / bare objects / boxed objects, Bool / # / int / long / int128 / int256 / bytes / string leaves.
   s_encode tbl m name fs = Some bytes says: {'@type': name, fs...} is well-typed (nesting depth < m) and bytes is
   its TL encoding.  tbl_ok: whatever a name resolves to has distinct field names, a 4-byte id, and its id resolves
   back to it (proved for the generated table: C14_table_ok). *)
Theorem C14_roundtrip : forall tbl,
  (forall n c, by_name tbl n = Some c -> ctor_okb c = true /\ by_id tbl (c_id c) = Some c) ->
  forall m name fs bytes fuel,
  s_encode tbl m name fs = Some bytes ->
  no_auto_capture tbl (TVObj name fs) = true ->
  (m <= fuel)%nat ->
  serialize tbl fuel name fs = Ok bytes /\
  deserialize tbl fuel bytes = Ok (TVObj name fs, List.length bytes).
Proof. exact roundtrip. Qed.
Print Assumptions C14_roundtrip.

(* ... and for the generated table without any table hypothesis *)
Theorem C14_roundtrip_table : forall m name fs bytes fuel,
  s_encode tl_table m name fs = Some bytes ->
  no_auto_capture tl_table (TVObj name fs) = true ->
  (m <= fuel)%nat ->
  serialize tl_table fuel name fs = Ok bytes /\
  deserialize tl_table fuel bytes = Ok (TVObj name fs, List.length bytes).
Proof. exact roundtrip_table. Qed.
Print Assumptions C14_roundtrip_table.

(* non-vacuity: a conditional field present (bit 1) and one absent (bit 2), a nested bare object *)
Example C14_roundtrip_ex_flags :
  let fs := [("mode", TVInt 2);
             ("id", TVObj "tonNode.blockId" [("workchain", TVInt (-1)); ("shard", TVInt (-9223372036854775808)); ("seqno", TVInt 7)]);
             ("lt", TVInt 1000)]%string in
  s_encode tl_table 3 "liteServer.lookupBlock" fs =
    Some [30; 247; 200; 250;  2; 0; 0; 0;  255; 255; 255; 255;  0; 0; 0; 0; 0; 0; 0; 128;  7; 0; 0; 0;
          232; 3; 0; 0; 0; 0; 0; 0]%N /\
  no_auto_capture tl_table (TVObj "liteServer.lookupBlock" fs) = true.
Proof. vm_compute. split; reflexivity. Qed.

(* a vector of bare objects (no '@type' on the elements) with bytes fields *)
Example C14_roundtrip_ex_vector_bare :
  let fs := [("result", TVVec [TVObj "" [("hash", TVHex (repeat 1%N 32)); ("data", TVBytes [1; 2; 3]%N)];
                               TVObj "" [("hash", TVHex (repeat 2%N 32)); ("data", TVBytes [])]])]%string in
  s_encode tl_table 4 "liteServer.libraryResult" fs =
    Some ([107; 185; 122; 17;  2; 0; 0; 0] ++ repeat 1 32 ++ [3; 1; 2; 3] ++ repeat 2 32 ++ [0; 0; 0; 0])%N /\
  no_auto_capture tl_table (TVObj "liteServer.libraryResult" fs) = true.
Proof. vm_compute. split; reflexivity. Qed.

(* a vector of boxed objects of a class with several constructors *)
Example C14_roundtrip_ex_vector_boxed :
  let fs := [("addrs", TVVec [TVObj "adnl.address.udp" [("ip", TVInt 2130706433); ("port", TVInt 3333)]]);
             ("version", TVInt 1); ("reinit_date", TVInt 2); ("priority", TVInt 0); ("expire_at", TVInt 0)]%string in
  s_encode tl_table 4 "adnl.addressList" fs =
    Some [88; 230; 39; 34;  1; 0; 0; 0;  231; 166; 13; 103;  1; 0; 0; 127;  5; 13; 0; 0;
          1; 0; 0; 0;  2; 0; 0; 0;  0; 0; 0; 0;  0; 0; 0; 0]%N /\
  no_auto_capture tl_table (TVObj "adnl.addressList" fs) = true.
Proof. vm_compute. split; reflexivity. Qed.

(* vectors of base types: (vector int), the case repaired in the library (elements used to come back as empty
   objects without consuming bytes): [5; -6] comes back as [5; -6] and all 100 bytes are consumed *)
Example C14_roundtrip_ex_vector_int :
  let fs := [("mode", TVInt 0);
             ("id", TVObj "tonNode.blockIdExt" [("workchain", TVInt (-1)); ("shard", TVInt (-9223372036854775808));
                                                ("seqno", TVInt 7); ("root_hash", TVHex (repeat 1%N 32));
                                                ("file_hash", TVHex (repeat 2%N 32))]);
             ("param_list", TVVec [TVInt 5; TVInt (-6)])]%string in
  let bytes := ([25; 28; 17; 42;  0; 0; 0; 0;  255; 255; 255; 255;  0; 0; 0; 0; 0; 0; 0; 128;  7; 0; 0; 0] ++
                repeat 1 32 ++ repeat 2 32 ++ [2; 0; 0; 0;  5; 0; 0; 0;  250; 255; 255; 255])%N in
  s_encode tl_table 4 "liteServer.getConfigParams" fs = Some bytes /\
  no_auto_capture tl_table (TVObj "liteServer.getConfigParams" fs) = true /\
  serialize tl_table 4 "liteServer.getConfigParams" fs = Ok bytes /\
  deserialize tl_table 4 bytes = Ok (TVObj "liteServer.getConfigParams" fs, 100%nat).
Proof. vm_compute. repeat split; reflexivity. Qed.

(* (vector int256) *)
Example C14_roundtrip_ex_vector_int256 :
  let fs := [("library_list", TVVec [TVHex (repeat 3%N 32); TVHex (repeat 4%N 32)])]%string in
  let bytes := ([98; 182; 34; 209;  2; 0; 0; 0] ++ repeat 3 32 ++ repeat 4 32)%N in
  s_encode tl_table 3 "liteServer.getLibraries" fs = Some bytes /\
  no_auto_capture tl_table (TVObj "liteServer.getLibraries" fs) = true /\
  serialize tl_table 3 "liteServer.getLibraries" fs = Ok bytes /\
  deserialize tl_table 3 bytes = Ok (TVObj "liteServer.getLibraries" fs, 72%nat).
Proof. vm_compute. repeat split; reflexivity. Qed.

(* (vector bytes): each element framed like a bytes field (254 bytes: long prefix) *)
Example C14_roundtrip_ex_vector_bytes :
  let fs := [("value", TVVec [TVBytes [1; 2; 3]%N; TVBytes []; TVBytes (repeat 9%N 254)])]%string in
  let bytes := ([211; 27; 139; 75;  3; 0; 0; 0;  3; 1; 2; 3;  0; 0; 0; 0;  254; 254; 0; 0] ++ repeat 9 254 ++ [0; 0])%N in
  s_encode tl_table 3 "testVectorBytes" fs = Some bytes /\
  no_auto_capture tl_table (TVObj "testVectorBytes" fs) = true /\
  serialize tl_table 3 "testVectorBytes" fs = Ok bytes /\
  deserialize tl_table 3 bytes = Ok (TVObj "testVectorBytes" fs, 276%nat).
Proof. vm_compute. repeat split; reflexivity. Qed.

(* (vector string), followed by other fields *)
Example C14_roundtrip_ex_vector_string :
  let fs := [("domains", TVVec [TVStr [97; 46; 116; 111; 110]%N; TVStr [195; 169]%N]);
             ("ip", TVInt 1); ("port", TVInt 80); ("adnl_id", TVObj "adnl.id.short" [("id", TVHex (repeat 5%N 32))])]%string in
  let bytes := ([167; 226; 125; 197;  2; 0; 0; 0;  5; 97; 46; 116; 111; 110; 0; 0;  2; 195; 169; 0;
                 1; 0; 0; 0;  80; 0; 0; 0] ++ repeat 5 32)%N in
  s_encode tl_table 3 "http.server.host" fs = Some bytes /\
  no_auto_capture tl_table (TVObj "http.server.host" fs) = true /\
  serialize tl_table 3 "http.server.host" fs = Ok bytes /\
  deserialize tl_table 3 bytes = Ok (TVObj "http.server.host" fs, 60%nat).
Proof. vm_compute. repeat split; reflexivity. Qed.

(* what the generated table contains that is still unsupported: none of its 114 vector fields; only the 25
   constructors with a field type the library itself cannot classify *)
Theorem C14_table_unsupported :
  List.length (flat_map (fun c => filter (fun a => match a_ty a with TVector _ _ _ => true | _ => false end) (c_args c)) tl_table) = 114%nat /\
  List.length (flat_map (fun c => filter (fun a => match a_ty a with TVector el en nm => negb (s_vector_supported el en nm) | _ => false end) (c_args c)) tl_table) = 0%nat /\
  list_string_eqb (map c_name (filter (fun c => existsb (fun a => ty_unsupported (a_ty a)) (c_args c)) tl_table))
                  tl_unsupported_ctors = true.
Proof. exact table_unsupported. Qed.
Print Assumptions C14_table_unsupported.

(* ill-typed input, outside the theorems (their guard is flags >= 0): the model follows the code for a negative
   mode too.  bin(-1) = '-0b1': position 1 is the '-', which is not '0', so lt (bit 1) is read;
   bin(-2) = '-0b10': positions 1 and 2 count as set, utime is read past the end (0) and 36 of 24 bytes are "consumed" *)
Example C14_negative_mode_ex :
  deserialize tl_table 3 ([0x1e; 0xf7; 0xc8; 0xfa;  255; 255; 255; 255] ++ repeat 0 16 ++ [5; 0; 0; 0; 0; 0; 0; 0])%N
  = Ok (TVObj "liteServer.lookupBlock"
          [("mode", TVInt (-1));
           ("id", TVObj "tonNode.blockId" [("workchain", TVInt 0); ("shard", TVInt 0); ("seqno", TVInt 0)]);
           ("lt", TVInt 5)]%string, 32%nat) /\
  deserialize tl_table 3 ([0x1e; 0xf7; 0xc8; 0xfa;  254; 255; 255; 255] ++ repeat 0 16)%N
  = Ok (TVObj "liteServer.lookupBlock"
          [("mode", TVInt (-2));
           ("id", TVObj "tonNode.blockId" [("workchain", TVInt 0); ("shard", TVInt 0); ("seqno", TVInt 0)]);
           ("lt", TVInt 0); ("utime", TVInt 0)]%string, 36%nat).
Proof. vm_compute. split; reflexivity. Qed.
