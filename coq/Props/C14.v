(* C14 - placeholder *)
From Coq Require Import NArith.
