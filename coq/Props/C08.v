(* C08 - cells are immutable values; derived objects are isolated snapshots.  Proved on the heap model of
   Model/Heap.v, where aliasing is explicit (the functional cell model satisfies the property vacuously). *)
From Coq Require Import NArith ZArith List Bool.
From PTQ Require Import Base.Result Model.Heap Proofs.HeapProofs Proofs.HeapAtomic.
Import ListNotations.

(* whatever sequence of operations is applied later - to slices, builders or copies derived from a cell, to the
   builder it came from, or to other cells - the content of an existing cell (its bits and, recursively, the
   contents of the cells it references) never changes *)
Theorem C08_frozen : forall ops1 ops2 i fuel,
  is_cell (run_ops ops1) i = true ->
  cell_content fuel (run_ops (ops1 ++ ops2)) i = cell_content fuel (run_ops ops1) i.
Proof. exact cells_frozen. Qed.
Print Assumptions C08_frozen.

(* objects are never retyped or dropped: a cell stays a cell *)
Theorem C08_stable_kind : forall ops1 ops2 i, is_cell (run_ops ops1) i = true -> is_cell (run_ops (ops1 ++ ops2)) i = true.
Proof. exact cells_stay_cells. Qed.
Print Assumptions C08_stable_kind.

(* a derived slice or builder is a snapshot: what a slice/builder holds is changed only by operations on that
   very object *)
Theorem C08_isolated : forall ops o i,
  match o with
  | OpStoreBits b _ | OpStoreRef b _ | OpStoreCell b _ | OpStoreSlice b _ => b <> i
  | OpLoadBits s _ | OpLoadRef s => s <> i
  | _ => True
  end ->
  (i < length (objs (run_ops ops)))%nat ->
  obj_view (step (run_ops ops) o) i = obj_view (run_ops ops) i.
Proof. exact others_untouched. Qed.
Print Assumptions C08_isolated.

(* a store is all-or-nothing: in every reachable heap, store_bits / store_ref / store_cell / store_slice either leaves
   the WHOLE heap as it was (the refused case: nothing of the value has been written, no other object has changed) or
   appends exactly the value's bits and references, as they were before the store, to the target builder - and only
   within 1023 bits / 4 references *)
Theorem C08_store_all_or_nothing : forall ops o b addb addr,
  payload (run_ops ops) o = Some (b, addb, addr) ->
  step (run_ops ops) o = run_ops ops \/
  exists bits refs, obj_view (run_ops ops) b = VBuilder bits refs /\
     obj_view (step (run_ops ops) o) b = VBuilder (bits ++ addb) (refs ++ addr) /\
     (addb = [] \/ length (bits ++ addb) <= 1023) /\ (addr = [] \/ length (refs ++ addr) <= 4).
Proof. exact store_all_or_nothing. Qed.
Print Assumptions C08_store_all_or_nothing.

(* reading (hashing, ordering, serialising) changes nothing *)
Theorem C08_read_pure : forall h c, step h (OpRead c) = h.
Proof. reflexivity. Qed.
Print Assumptions C08_read_pure.

Example C08_example :
  let ops := [OpNewBuilder; OpStoreBits 0 [true; false; true]; OpEndCell 0; OpStoreBits 0 [true]; OpBeginParse 1;
              OpLoadBits 2 2; OpToBuilder 1; OpStoreRef 3 1; OpEndCell 3; OpSliceToCell 2] in
  let h := run_ops ops in
  is_cell h 1 = true /\ cell_content 3 h 1 = Content [true; false; true] [] /\
  cell_content 3 h 4 = Content [true; false; true] [Content [true; false; true] []] /\
  cell_content 3 h 5 = Content [true] [].
Proof. vm_compute. repeat split; reflexivity. Qed.

(* non-vacuity of the refused case: a 600-bit cell stored twice - the second store is refused and changes nothing;
   a slice with 3 references left is refused by a builder already holding 2, bits included *)
Example C08_refused_example :
  let big := repeat true 600 in
  let ops := [OpNewBuilder; OpStoreBits 0 big; OpEndCell 0; OpNewBuilder; OpStoreCell 2 1] in
  step (run_ops ops) (OpStoreCell 2 1) = run_ops ops /\
  obj_view (run_ops ops) 2 = VBuilder big [].
Proof. vm_compute. split; reflexivity. Qed.
