(* C08 - cells are immutable values; derived objects are isolated snapshots.  Proved on the heap model of
   Model/Heap.v, where aliasing is explicit (the functional cell model satisfies the property vacuously). *)
From Coq Require Import NArith ZArith List Bool.
From PTQ Require Import Base.Result Model.Heap Proofs.HeapProofs.
Import ListNotations.

(* whatever sequence of operations is applied later - to slices, builders or copies derived from a cell, to the
   builder it came from, or to other cells - the content of an existing cell (its bits and, recursively, the
   contents of the cells it references) never changes *)
Theorem C08_frozen : forall ops1 ops2 i fuel,
  is_cell (run_ops ops1) i = true ->
  cell_content fuel (run_ops (ops1 ++ ops2)) i = cell_content fuel (run_ops ops1) i.
Proof. exact cells_frozen. Qed.
Print Assumptions C08_frozen.

(* objects are never retyped or dropped: a cell stays a cell *)
Theorem C08_stable_kind : forall ops1 ops2 i, is_cell (run_ops ops1) i = true -> is_cell (run_ops (ops1 ++ ops2)) i = true.
Proof. exact cells_stay_cells. Qed.
Print Assumptions C08_stable_kind.

(* a derived slice or builder is a snapshot: what a slice/builder holds is changed only by operations on that
   very object *)
Theorem C08_isolated : forall ops o i,
  match o with
  | OpStoreBits b _ | OpStoreRef b _ | OpStoreCell b _ | OpStoreSlice b _ => b <> i
  | OpLoadBits s _ | OpLoadRef s => s <> i
  | _ => True
  end ->
  (i < length (objs (run_ops ops)))%nat ->
  obj_view (step (run_ops ops) o) i = obj_view (run_ops ops) i.
Proof. exact others_untouched. Qed.
Print Assumptions C08_isolated.

(* reading (hashing, ordering, serialising) changes nothing *)
Theorem C08_read_pure : forall h c, step h (OpRead c) = h.
Proof. reflexivity. Qed.
Print Assumptions C08_read_pure.

Example C08_example :
  let ops := [OpNewBuilder; OpStoreBits 0 [true; false; true]; OpEndCell 0; OpStoreBits 0 [true]; OpBeginParse 1;
              OpLoadBits 2 2; OpToBuilder 1; OpStoreRef 3 1; OpEndCell 3; OpSliceToCell 2] in
  let h := run_ops ops in
  is_cell h 1 = true /\ cell_content 3 h 1 = Content [true; false; true] [] /\
  cell_content 3 h 4 = Content [true; false; true] [Content [true; false; true] []] /\
  cell_content 3 h 5 = Content [true] [].
Proof. vm_compute. repeat split; reflexivity. Qed.
