(* C15 - messages, state-inits and currency values serialise per block.tlb and round-trip. *)
From Coq Require Import NArith ZArith List Bool.
From PTQ Require Import Base.Result Base.Bytes Base.Bits Model.Cell Spec.CellRepr Model.Builder Model.Hashmap
  Model.Message Spec.TlbPrim Spec.MessageSpec Proofs.MessageProofs.
Import ListNotations.
Local Open Scope Z_scope.

(* serialising never fails for lack of room: whenever the header itself leaves three bits, any state-init and any
   body (a cell of up to 1023 bits / 4 refs) are placed inline or moved into references *)
Theorem C15_never_overflows : forall info init body ic,
  ser_info info = Ok ic -> cbits ic <= 1020 ->
  match init with Some si => init_ok si = true /\ opt_depth_ok (si_code si) = true /\
                             opt_depth_ok (si_data si) = true /\ opt_depth_ok (si_library si) = true
                | None => True end ->
  cell_ok body = true -> (s_depth body < 1022)%N ->
  exists c, ser_message info init body = Ok c.
Proof. exact message_never_overflows. Qed.
Print Assumptions C15_never_overflows.

(* the cell decodes, under the independent reading of the schema, to the same logical message *)
Theorem C15_decodes : forall info init body c,
  info_ok info = true -> info_canon info = true ->
  match init with Some si => init_ok si = true | None => True end ->
  cell_ok body = true ->
  ser_message info init body = Ok c ->
  s_dec_message c = Ok (info, init, body).
Proof. exact message_decodes. Qed.
Print Assumptions C15_decodes.

(* the stand-alone wrappers *)
Theorem C15_state_init : forall si c tb tr, init_ok si = true -> ser_state_init si = Ok c ->
  match c with Cell _ bits refs =>
    s_dec_state_init (mkS (bits ++ tb) (refs ++ tr)) = Ok (si, mkS tb tr) end.
Proof. exact state_init_roundtrip. Qed.
Print Assumptions C15_state_init.

Theorem C15_currency : forall g ec c tb tr, coins_ok g = true -> ec_sorted ec = true ->
  forallb (fun kv => (0 <=? fst kv) && (fst kv <? 2 ^ 32) && (0 <=? snd kv) && (snd kv <? 2 ^ 248)) ec = true ->
  ser_currency g ec = Ok c ->
  match c with Cell _ bits refs =>
    s_dec_currency (mkS (bits ++ tb) (refs ++ tr)) = Ok (g, ec, mkS tb tr) end.
Proof. exact currency_roundtrip. Qed.
Print Assumptions C15_currency.

Theorem C15_hash_update : forall o n c, length o = 32%nat -> length n = 32%nat -> bytes_ok o -> bytes_ok n ->
  ser_hash_update o n = Ok c -> s_dec_hash_update c = Ok (o, n).
Proof. exact hash_update_roundtrip. Qed.
Print Assumptions C15_hash_update.

Example C15_example :
  let a := AddrStd None 0 (repeat 1%N 32) in
  let e := Cell (-1) [] [] in
  let info := IntInfo true false false a a 10 [(1, 5)] 0 0 0 0 in
  let si := mkSI None None (Some e) (Some e) (Some e) in
  let body := Cell (-1) [true] [e; e] in
  match ser_message info (Some si) body with
  | Ok c => s_dec_message c = Ok (info, Some si, body)
  | Err _ => False
  end.
Proof. vm_compute. reflexivity. Qed.
