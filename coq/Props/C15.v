(* C15 - messages, state-inits and currency values serialise per block.tlb and round-trip. *)
From Coq Require Import NArith ZArith List Bool.
From PTQ Require Import Base.Result Base.Bytes Base.Bits Model.Cell Spec.CellRepr Model.Builder Model.Hashmap
  Model.Message Spec.TlbPrim Spec.MessageSpec Proofs.MessageProofs.
Import ListNotations.
Local Open Scope Z_scope.

(* serialising never fails for lack of room: whenever the header itself leaves three bits, any state-init and any
   body (a cell of up to 1023 bits / 4 refs) are placed inline or moved into references *)
Theorem C15_never_overflows : forall info init body ic,
  ser_info info = Ok ic -> cbits ic <= 1020 ->
  match init with Some si => init_ok si = true /\ opt_depth_ok (si_code si) = true /\
                             opt_depth_ok (si_data si) = true /\ opt_depth_ok (si_library si) = true
                | None => True end ->
  cell_ok body = true -> (s_depth body < 1022)%N ->
  exists c, ser_message info init body = Ok c.
Proof. exact message_never_overflows. Qed.
Print Assumptions C15_never_overflows.

(* the cell decodes, under the independent reading of the schema, to the same logical message *)
Theorem C15_decodes : forall info init body c,
  info_ok info = true -> info_canon info = true ->
  match init with Some si => init_ok si = true | None => True end ->
  cell_ok body = true ->
  ser_message info init body = Ok c ->
  s_dec_message c = Ok (info, init, body).
Proof. exact message_decodes. Qed.
Print Assumptions C15_decodes.

(* the stand-alone wrappers *)
Theorem C15_state_init : forall si c tb tr, init_ok si = true -> ser_state_init si = Ok c ->
  match c with Cell _ bits refs =>
    s_dec_state_init (mkS (bits ++ tb) (refs ++ tr)) = Ok (si, mkS tb tr) end.
Proof. exact state_init_roundtrip. Qed.
Print Assumptions C15_state_init.

Theorem C15_currency : forall g ec c tb tr, coins_ok g = true -> ec_sorted ec = true ->
  forallb (fun kv => (0 <=? fst kv) && (fst kv <? 2 ^ 32) && (0 <=? snd kv) && (snd kv <? 2 ^ 248)) ec = true ->
  ser_currency g ec = Ok c ->
  match c with Cell _ bits refs =>
    s_dec_currency (mkS (bits ++ tb) (refs ++ tr)) = Ok (g, ec, mkS tb tr) end.
Proof. exact currency_roundtrip. Qed.
Print Assumptions C15_currency.

Theorem C15_hash_update : forall o n c, length o = 32%nat -> length n = 32%nat -> bytes_ok o -> bytes_ok n ->
  ser_hash_update o n = Ok c -> s_dec_hash_update c = Ok (o, n).
Proof. exact hash_update_roundtrip. Qed.
Print Assumptions C15_hash_update.

Example C15_example :
  let a := AddrStd None 0 (repeat 1%N 32) in
  let e := Cell (-1) [] [] in
  let info := IntInfo true false false a a 10 [(1, 5)] 0 0 0 0 in
  let si := mkSI None None (Some e) (Some e) (Some e) in
  let body := Cell (-1) [true] [e; e] in
  match ser_message info (Some si) body with
  | Ok c => s_dec_message c = Ok (info, Some si, body)
  | Err _ => False
  end.
Proof. vm_compute. reflexivity. Qed.

(* ------------------------------------------------------------------------------------------------------ *)
(* Second half: the library's OWN parser (MessageAny.deserialize, as traced into Gen/TlbImpl.v:             *)
(* impl_MessageAny and the trees it calls) returns the same message from the cell, and from every other     *)
(* placement of the state-init and of the body.  Proofs/MessageParser.v: the cell ser_message builds is the *)
(* block.tlb encoding (Spec/Tlb.v: encode_ch on Spec/BlockTlb.v: spec_MessageAny) of the object             *)
(* pv_of_message info init body = MessageAny(info, init, body), followed by the body when it is stored      *)
(* inline; then C16 (Proofs/TlbProofs.v).                                                                   *)
(* info_kinds: the addresses have the kinds block.tlb prescribes (MsgAddressInt = addr_std for src/dest of  *)
(* an internal message, MsgAddressExt for src of ext-in / dest of ext-out).  The serialiser (and the        *)
(* parser) accept any address anywhere, but such a message is not a value of the schema; the statement      *)
(* without info_kinds is not proved:                                                                        *)
(*   forall info init body c fuel, info_ok info = true -> info_canon info = true -> (init_ok) ->            *)
(*     cell_ok body = true -> ser_message info init body = Ok c -> 83 <= fuel ->                            *)
(*     run_type impl_table fuel "MessageAny" [] c = Ok (pv_of_message info init body, ...).                 *)
(* ------------------------------------------------------------------------------------------------------ *)
From Coq Require Import String.
From PTQ Require Import Model.Dtree Spec.Tlb Spec.BlockTlb Gen.TlbImpl Proofs.TlbProofs Proofs.MessageParser.

(* (a) the parser returns the message that was serialised.  What is left of the slice: the body when the
   serialiser stored it inline (deserialize keeps it with to_cell, it does not consume it), nothing when the
   body went into a reference. *)
Theorem C15_library_parser : forall info init body c fuel,
  info_ok info = true -> info_canon info = true -> info_kinds info = true ->
  match init with Some si => init_ok si = true | None => True end ->
  cell_ok body = true ->
  ser_message info init body = Ok c -> (83 <= fuel)%nat ->
  run_type impl_table fuel "MessageAny"%string [] c
  = Ok (pv_of_message info init body, if msg_body_inline info init body then begin_parse body else mkS [] []).
Proof. exact message_parsed. Qed.
Print Assumptions C15_library_parser.

(* (b) any other valid encoding.  ch tells, for each Either field, which alternative an encoder uses (true: the
   reference); cx what the object knows of what follows it (an inline body IS what follows: cx = Some (tb, tr)).
   For EVERY ch: whenever the object of a message is a value of the layout and is encoded per block.tlb with
   these alternatives, the parser returns that same object and leaves what followed. *)
Theorem C15_any_encoding : forall ch cx info init body tb tr bits refs fuel,
  wt_in ch spec_table spec_MessageAny cx (pv_of_message info init body) ->
  encode_ch ch spec_table spec_MessageAny (pv_of_message info init body) = Ok (bits, refs) ->
  ctx_ok cx tb tr -> (83 <= fuel)%nat ->
  run_type impl_table fuel "MessageAny"%string [] (Cell (-1) (bits ++ tb) (refs ++ tr))
  = Ok (pv_of_message info init body, mkS tb tr).
Proof.
  intros ch cx info init body tb tr bits refs fuel.
  exact (C16_generic_ch "MessageAny" spec_MessageAny 83 eq_refl eq_refl ch cx (pv_of_message info init body) tb tr
           bits refs fuel).
Qed.
Print Assumptions C15_any_encoding.

(* ... and in message terms: for a serialisable header, all four placements (state-init inline / in a
   reference: ri; body inline / in a reference: rb) have a block.tlb encoding, and the parser returns the same
   object from each of them. *)
Theorem C15_all_placements : forall info init bb br ic ri rb fuel,
  info_ok info = true -> info_canon info = true -> info_kinds info = true ->
  match init with Some si => init_ok si = true | None => True end ->
  ser_info info = Ok ic -> (83 <= fuel)%nat ->
  exists bits refs,
    encode_ch (ch_of ri rb) spec_table spec_MessageAny (pv_of_message info init (Cell ty_ordinary bb br)) = Ok (bits, refs) /\
    run_type impl_table fuel "MessageAny"%string []
      (Cell (-1) (bits ++ (if rb then [] else bb)) (refs ++ (if rb then [] else br)))
    = Ok (pv_of_message info init (Cell ty_ordinary bb br), if rb then mkS [] [] else mkS bb br).
Proof. exact message_all_placements. Qed.
Print Assumptions C15_all_placements.

(* (c) an internal message with extra currencies, a state-init with code, data and library, a body with three
   references (the shape that used to overflow): here both the state-init and the body end up in references *)
Example C15_library_parser_example :
  let a := AddrStd None 0 (repeat 1%N 32) in
  let e := Cell (-1) [] [] in
  let info := IntInfo true false false a a 10 [(1, 5); (7, 300)] 0 0 0 0 in
  let si := mkSI (Some 3) (Some (true, false)) (Some e) (Some e) (Some e) in
  let body := Cell (-1) [true] [e; e; e] in
  (info_ok info = true /\ info_canon info = true /\ info_kinds info = true /\ init_ok si = true /\
   cell_ok body = true /\ msg_body_inline info (Some si) body = false) /\
  match ser_message info (Some si) body with
  | Ok c => run_type impl_table 83 "MessageAny"%string [] c = Ok (pv_of_message info (Some si) body, mkS [] [])
  | Err _ => False
  end.
Proof. vm_compute. repeat split; reflexivity. Qed.
(* the same message with a body that fits: it is stored inline, parsed, and left in the slice *)
Example C15_library_parser_example_inline :
  let a := AddrStd None 0 (repeat 1%N 32) in
  let e := Cell (-1) [] [] in
  let info := IntInfo true false false a a 10 [(1, 5); (7, 300)] 0 0 0 0 in
  let body := Cell (-1) [true; false; true] [e; e] in
  msg_body_inline info None body = true /\
  match ser_message info None body with
  | Ok c => run_type impl_table 83 "MessageAny"%string [] c = Ok (pv_of_message info None body, begin_parse body)
  | Err _ => False
  end.
Proof. vm_compute. repeat split; reflexivity. Qed.
