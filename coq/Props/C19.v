(* C19 - work is bounded by the size of the input; every parser terminates.  PARTIAL: a cost semantics
   (visit / iteration counts) is proved; wall-clock time and the cost of library primitives are not modelled. *)
From Coq Require Import NArith ZArith List Bool.
From PTQ Require Import Base.Result Base.Bytes Base.Bits Base.Sha256 Model.Cell Model.Boc Model.Cost
  Spec.BocFormat Spec.BocProps Proofs.CostProofs.
Import ListNotations.

(* the instrumented traversal computes the same order *)
Theorem C19_order_same : forall k, fst (ord_visit_c k ([], O)) = order k.
Proof. exact order_c_same. Qed.
Print Assumptions C19_order_same.

(* the number of visits is EXACTLY one plus the number of references of the distinct cells: a shared sub-DAG is
   expanded once, however many paths lead to it *)
Theorem C19_order_visits : forall k, order_visits k = S (nrefs_sum (order k)).
Proof. exact order_visits_exact. Qed.
Print Assumptions C19_order_visits.

(* hence linear in cells + references *)
Theorem C19_order_linear : forall t k, build sha256 t = Ok k -> boc_wf t = true ->
  (order_visits k <= 1 + 4 * length (order k))%nat.
Proof. exact (order_visits_linear sha256). Qed.
Print Assumptions C19_order_linear.

(* the BoC parser cannot be made to iterate by a count field: every parsed cell consumed at least two bytes *)
Theorem C19_boc_cells_bounded : forall n d size raws, parse_cells n d size = Ok raws ->
  (2 * n <= length d)%nat /\ length raws = n.
Proof. exact parse_cells_bounded. Qed.
Print Assumptions C19_boc_cells_bounded.

(* the header lists are bounded by the input too: an accepted header has room for what it announces *)
Theorem C19_header_bounded : forall d h, deserialize_boc_header d = Ok h ->
  (N.to_nat (h_tot h) <= length d)%nat /\ (length (h_root_list h) <= length d)%nat /\
  match h_index h with Some ix => (length ix <= length d)%nat | None => True end.
Proof. exact header_bounded. Qed.
Print Assumptions C19_header_bounded.

Example C19_diamond :
  let fix dia (n : nat) : cell := match n with O => Cell (-1) [] [] | S m => Cell (-1) [] [dia m; dia m] end in
  match build sha256 (dia 8) with
  | Ok k => length (order k) = 9%nat /\ order_visits k = 17%nat
  | Err _ => False
  end.
Proof. vm_compute. split; reflexivity. Qed.
