(* C19 - work is bounded by the size of the input; every parser terminates.  PARTIAL: a cost semantics
   (visit / iteration counts) is proved; wall-clock time and the cost of library primitives are not modelled. *)
From Coq Require Import NArith ZArith List Bool.
From PTQ Require Import Base.Result Base.Bytes Base.Bits Base.Sha256 Model.Cell Model.Builder Model.Boc Model.Cost
  Model.Hashmap Spec.BocFormat Spec.BocProps Proofs.CostProofs Proofs.DictCost.
Import ListNotations.

(* the instrumented traversal computes the same order *)
Theorem C19_order_same : forall k, fst (ord_visit_c k ([], O)) = order k.
Proof. exact order_c_same. Qed.
Print Assumptions C19_order_same.

(* the number of visits is EXACTLY one plus the number of references of the distinct cells: a shared sub-DAG is
   expanded once, however many paths lead to it *)
Theorem C19_order_visits : forall k, order_visits k = S (nrefs_sum (order k)).
Proof. exact order_visits_exact. Qed.
Print Assumptions C19_order_visits.

(* hence linear in cells + references *)
Theorem C19_order_linear : forall t k, build sha256 t = Ok k -> boc_wf t = true ->
  (order_visits k <= 1 + 4 * length (order k))%nat.
Proof. exact (order_visits_linear sha256). Qed.
Print Assumptions C19_order_linear.

(* the BoC parser cannot be made to iterate by a count field: every parsed cell consumed at least two bytes *)
Theorem C19_boc_cells_bounded : forall n d size raws, parse_cells n d size = Ok raws ->
  (2 * n <= length d)%nat /\ length raws = n.
Proof. exact parse_cells_bounded. Qed.
Print Assumptions C19_boc_cells_bounded.

(* the header lists are bounded by the input too: an accepted header has room for what it announces *)
Theorem C19_header_bounded : forall d h, deserialize_boc_header d = Ok h ->
  (N.to_nat (h_tot h) <= length d)%nat /\ (length (h_root_list h) <= length d)%nat /\
  match h_index h with Some ix => (length ix <= length d)%nat | None => True end.
Proof. exact header_bounded. Qed.
Print Assumptions C19_header_bounded.

Example C19_diamond :
  let fix dia (n : nat) : cell := match n with O => Cell (-1) [] [] | S m => Cell (-1) [] [dia m; dia m] end in
  match build sha256 (dia 8) with
  | Ok k => length (order k) = 9%nat /\ order_visits k = 17%nat
  | Err _ => False
  end.
Proof. vm_compute. split; reflexivity. Qed.

(* ---- dictionary parser (Proofs/DictCost.v): parse_edge_c = parse_edge instrumented with (edge visits,
   visits that end without an entry: a non-ordinary cell, or the empty key) ---- *)

(* the instrumented dictionary parser computes the same result *)
Theorem C19_dict_same : forall fuel ty s m prefix,
  rmap fst (parse_edge_c fuel ty s m prefix) = parse_edge fuel ty s m prefix.
Proof. exact parse_edge_c_same. Qed.
Print Assumptions C19_dict_same.

(* every walk is a binary tree: visits + 1 = 2 * (entries returned + empty terminals) *)
Theorem C19_dict_visits_exact : forall fuel ty s m prefix ls v z,
  parse_edge_c fuel ty s m prefix = Ok (ls, (v, z)) ->
  (v + 1 = 2 * (length ls + z))%nat.
Proof. exact dict_visits_exact. Qed.
Print Assumptions C19_dict_visits_exact.

(* hence linear in what the walk yields, and at most 2 * entries when no terminal is empty *)
Theorem C19_dict_visits_linear : forall fuel ty s m prefix ls v z,
  parse_edge_c fuel ty s m prefix = Ok (ls, (v, z)) ->
  (v <= 2 * (length ls + z))%nat /\ (z = O -> v <= 2 * length ls)%nat.
Proof. exact dict_visits_linear. Qed.
Print Assumptions C19_dict_visits_linear.

(* output-linear work: a dictionary without non-ordinary cells, key width >= 1, that parses to k entries
   costs exactly 2k - 1 edge visits, however its cells are shared (F32) *)
Theorem C19_dict_visits_output : forall fuel ty bits refs n ls v z,
  cell_all_ord (Cell ty bits refs) = true -> (0 < n)%Z ->
  parse_edge_c fuel ty (mkS bits refs) n [] = Ok (ls, (v, z)) ->
  (1 <= length ls)%nat /\ v = (2 * length ls - 1)%nat /\ z = O.
Proof. exact dict_visits_output_exact. Qed.
Print Assumptions C19_dict_visits_output.

(* the recursion depth is at most the key width + 1: any two fuels above the remaining key width give the
   same result; the constant fuel bounds nothing *)
Theorem C19_dict_fuel_irrelevant : forall f1 f2 ty s m prefix,
  (Z.to_nat m < f1)%nat -> (Z.to_nat m < f2)%nat ->
  parse_edge f1 ty s m prefix = parse_edge f2 ty s m prefix.
Proof. exact parse_edge_fuel_irrelevant. Qed.
Print Assumptions C19_dict_fuel_irrelevant.

Theorem C19_dict_parse_hashmap_fuel : forall ty s n, (n <= 1023)%Z ->
  parse_hashmap ty s n = parse_edge (S (Z.to_nat n)) ty s n [].
Proof. exact parse_hashmap_fuel. Qed.
Print Assumptions C19_dict_parse_hashmap_fuel.

(* the work is bounded by the key width alone as well: at most 2^(m+1) - 1 visits *)
Theorem C19_dict_visits_depth : forall fuel ty s m prefix ls v z,
  parse_edge_c fuel ty s m prefix = Ok (ls, (v, z)) ->
  (0 <= m)%Z /\ (v + 1 <= 2 ^ (Z.to_nat m + 1))%nat.
Proof. exact dict_visits_depth. Qed.
Print Assumptions C19_dict_visits_depth.

(* no count-field-driven descent: a label announcing more bits than the remaining key is refused at once *)
Theorem C19_dict_label_too_long : forall s m l suffix s1,
  deserialize_hml s m = Ok (l, suffix, s1) -> (m < Z.of_nat l)%Z ->
  forall fuel ty prefix, parse_edge (S fuel) ty s m prefix = Err EValue.
Proof. intros s m l suffix s1 H1 H2. exact (proj1 (PTQ.Proofs.HmParse.label_too_long_rejected s m l suffix s1 H1 H2)). Qed.
Print Assumptions C19_dict_label_too_long.

(* F32: 7 distinct cells, both references of every fork the same child: a Hashmap 6 of 64 distinct keys,
   parsed with 127 = 2 * 64 - 1 visits *)
Theorem C19_dict_shared_chain :
  length (dict_chain_cells 6) = 7%nat /\
  cell_all_ord (dict_chain 6) = true /\
  match parse_edge_c parse_fuel ty_ordinary (begin_parse (dict_chain 6)) 6 [] with
  | Ok (ls, (v, z)) => length ls = 64%nat /\ v = 127%nat /\ z = 0%nat /\ NoDup (map fst ls)
  | Err _ => False
  end.
Proof. exact dict_chain_6. Qed.
Print Assumptions C19_dict_shared_chain.

(* the same chain ending in a pruned-branch cell: 127 visits, no entry, 64 empty terminals *)
Theorem C19_dict_shared_chain_pruned :
  parse_edge_c parse_fuel ty_ordinary (begin_parse (dict_chain_pruned 6)) 6 [] = Ok ([], (127, 64))%nat.
Proof. exact dict_chain_pruned_6. Qed.
Print Assumptions C19_dict_shared_chain_pruned.

From PTQ Require Import Model.Tl Spec.TlSpec Gen.TlSchemaTable Proofs.TlProofs Proofs.TlCost.

(* ---- TL deserializer (Model/Tl.v; Proofs/TlCost.v).  [dstep] is one field of TlSchemas.deserialize with an
   ARBITRARY recursive call [rec]: a statement about it holds at every fuel ---- *)
From Coq Require Import String.   (* from here on [length] is String.length: lists use List.length *)

(* an accepted vector field returns exactly as many elements as its 4-byte count announces, and that count is at
   most the number of input bytes after the count *)
Theorem C19_tl_vector_bounded : forall tbl rec d boxed c i fs a el en nm r,
  a_ty a = TVector el en nm -> present_m fs a = Ok true ->
  dstep tbl rec d boxed c (Ok (i, fs)) a = Ok r ->
  exists i2 items, r = (i2, fs ++ [(a_field a, TVVec items)]) /\
    List.length items = N.to_nat (of_le (bslice d i (i + 4))) /\
    (i + 4 + List.length items <= List.length d)%nat.
Proof. exact vector_step_bounded. Qed.
Print Assumptions C19_tl_vector_bounded.

(* a count larger than the remaining input is refused before any element is parsed: same error for every [rec] *)
Theorem C19_tl_vector_reject : forall tbl rec d boxed c i fs a el en nm,
  a_ty a = TVector el en nm -> present_m fs a = Ok true ->
  (List.length d - (i + 4) < N.to_nat (of_le (bslice d i (i + 4))))%nat ->
  dstep tbl rec d boxed c (Ok (i, fs)) a = Err ETl.
Proof. exact vector_step_reject. Qed.
Print Assumptions C19_tl_vector_reject.

(* the same for the deserializer, on a bare vector, at every fuel *)
Theorem C19_tl_deser_vector_bounded : forall tbl fuel d id nm cls fld el en named v j,
  deser tbl fuel d false (Some (vec_ctor id nm cls fld el en named)) = Ok (v, j) ->
  exists items, v = TVObj "" [(fld, TVVec items)] /\
    List.length items = N.to_nat (of_le (bslice d 0 4)) /\ (4 + List.length items <= List.length d)%nat.
Proof. exact deser_vector_bounded. Qed.
Print Assumptions C19_tl_deser_vector_bounded.

Theorem C19_tl_deser_vector_reject : forall tbl d id nm cls fld el en named,
  (List.length d - 4 < N.to_nat (of_le (bslice d 0 4)))%nat ->
  forall fuel, deser tbl (S fuel) d false (Some (vec_ctor id nm cls fld el en named)) = Err ETl.
Proof. exact deser_vector_reject. Qed.
Print Assumptions C19_tl_deser_vector_reject.

Theorem C19_tl_deser_vector_reject_any_fuel : forall tbl d id nm cls fld el en named,
  (List.length d - 4 < N.to_nat (of_le (bslice d 0 4)))%nat ->
  forall fuel, exists e, deser tbl fuel d false (Some (vec_ctor id nm cls fld el en named)) = Err e.
Proof. exact deser_vector_reject_any_fuel. Qed.
Print Assumptions C19_tl_deser_vector_reject_any_fuel.

(* an accepted bytes / string field: the byte string / str (or the list of concatenated objects) it returns is no
   longer than the input that follows the first prefix byte, whatever length the prefix announces *)
Theorem C19_tl_bytes_bounded : forall tbl rec d boxed c i fs a r,
  rec_raw rec -> rec_nz rec ->
  a_ty a = TBytes \/ a_ty a = TString -> present_m fs a = Ok true ->
  dstep tbl rec d boxed c (Ok (i, fs)) a = Ok r ->
  exists val, snd r = fs ++ [(a_field a, val)] /\
    (forall l, val = TVBytes l \/ val = TVStr l -> (List.length l <= List.length d - (i + 1))%nat) /\
    (forall l, val = TVVec l -> (List.length l <= List.length d - (i + 1))%nat).
Proof. exact bytes_step_bounded. Qed.
Print Assumptions C19_tl_bytes_bounded.

Theorem C19_tl_deser_bytes_bounded : forall tbl fuel d id nm cls fld ty v j,
  by_id tbl [] = None -> ty = TBytes \/ ty = TString ->
  deser tbl fuel d false (Some (one_ctor id nm cls fld ty)) = Ok (v, j) ->
  exists val, v = TVObj "" [(fld, val)] /\
    (forall l, val = TVBytes l \/ val = TVStr l -> (List.length l <= List.length d - 1)%nat) /\
    (forall l, val = TVVec l -> (List.length l <= List.length d - 1)%nat).
Proof. exact deser_bytes_bounded. Qed.
Print Assumptions C19_tl_deser_bytes_bounded.

(* GLOBAL, every fuel: in the value returned for an n-byte input, every vector, list of concatenated objects, byte
   string, str and hex str - at any depth - has at most n elements.  PARTIAL with respect to "consumed <= input":
   that is false of this deserializer (TlCost.bytes_truncated, TlCost.fixed_past_end: slices are truncated and the
   offset runs past the data), and the number of scalar fields is bounded by the schema, not by the input *)
Theorem C19_tl_lists_bounded : forall tbl, by_id tbl [] = None ->
  forall fuel d boxed ctor v j, deser tbl fuel d boxed ctor = Ok (v, j) -> tv_bounded (List.length d) v.
Proof. exact deser_lists_bounded. Qed.
Print Assumptions C19_tl_lists_bounded.

Theorem C19_tl_table_lists_bounded : forall fuel d v j,
  deserialize tl_table fuel d = Ok (v, j) -> tv_bounded (List.length d) v.
Proof. exact deserialize_lists_bounded. Qed.
Print Assumptions C19_tl_table_lists_bounded.

Example C19_tl_huge_count : forall fuel,
  deser tl_table (S fuel) [255; 255; 255; 255; 0; 0; 0; 0]%N false (Some int_vec) = Err ETl.
Proof. exact vector_huge_count. Qed.
