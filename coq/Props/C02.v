(* C02 - exotic cells: level masks, per-level hashes and depths, Merkle pruning invariance. *)
From Coq Require Import NArith ZArith List.
From PTQ Require Import Base.Result Base.Bytes Base.Bits Base.Sha256 Model.Cell Spec.CellRepr Spec.CellWf
  Model.Inst Proofs.CellExotic Proofs.CellReprAll.
Import ListNotations.
Local Open Scope N_scope.

(* the four LevelMask operations on the finite domain m in 0..7, l in 0..3 *)
Theorem C02_mask_ops : forall m l, m <= 7 -> l <= 3 ->
  lm_level m = N.size m /\ lm_hash_index m = popcount m /\
  lm_apply m l = low_mask m (N.to_nat l) /\
  lm_significant m l = ((l =? 0) || N.testbit m (l - 1))%bool.
Proof. exact mask_ops_spec. Qed.
Print Assumptions C02_mask_ops.

(* every spec-valid tree of ordinary, pruned, library, Merkle-proof and Merkle-update cells can be
   constructed, and its level mask and the hash and depth at each level 0..3 are the specified ones *)
Theorem C02_levels : forall c, wf_exotic c = true -> depth_okb sha256 c = true ->
  exists k, build sha256 c = Ok k /\ k_mask k = s_mask c /\
    forall l, (l <= 3)%nat ->
      get_hash k (N.of_nat l) = Ok (s_hash_at sha256 c l) /\
      get_depth k (N.of_nat l) = Ok (s_depth_at sha256 c l).
Proof. exact (exotic_levels sha256 sha256_len). Qed.
Print Assumptions C02_levels.

(* asked for its hash or depth at or above its own level, every constructed cell of a spec-valid tree answers with its
   representation hash (Cell.hash) and its top depth: levels above the cell's own add nothing *)
Theorem C02_top_level : forall c k L, wf_exotic c = true -> build sha256 c = Ok k ->
  lm_level (k_mask k) <= L -> L <= 4 ->
  k_mask k <= 7 /\ get_hash k L = Ok (k_hash k) /\ get_depth k L = Ok (last (k_depths k) 0).
Proof. exact (top_level_all sha256). Qed.
Print Assumptions C02_top_level.

(* replacing a level-0 subtree t, j Merkle cells below the root, by the pruned branch that carries
   its hash and depth leaves the level-0 hash and depth of the enclosing tree unchanged.
   The depth of t must fit the 16-bit depth field of the pruned branch: without
   [s_depth_at sha256 t 0 < 65536] the statement is false already for K = Hole (the branch then
   stores the depth mod 65536). *)
Theorem C02_prune_invariance : forall K t j,
  ctx_nonpruned K = true -> merkle_depth K = j -> (j <= 2)%nat -> s_mask t = 0 ->
  s_depth_at sha256 t 0 < 65536 ->
  s_hd sha256 (plug K (s_prune sha256 j t)) 0 = s_hd sha256 (plug K t) 0.
Proof. exact (prune_invariance sha256 sha256_len sha256_ok). Qed.
Print Assumptions C02_prune_invariance.

(* an ordinary context may use any pruned branch whose first stored hash/depth are those of t *)
Theorem C02_prune_ordinary : forall K t p,
  ctx_nonpruned K = true -> merkle_depth K = 0%nat ->
  s_hd sha256 p 0 = s_hd sha256 t 0 ->
  s_hd sha256 (plug K p) 0 = s_hd sha256 (plug K t) 0.
Proof. exact (prune_ordinary sha256). Qed.
Print Assumptions C02_prune_ordinary.

(* non-vacuity: a Merkle proof over a tree with a mask-1 pruned branch; a mask-6 pruned branch *)
Example C02_example :
  let t := Cell (-1) [true] [] in
  let p := s_prune sha256 0 t in
  let body := Cell (-1) [false; true] [p; Cell (-1) [] []] in
  let mp := Cell 3 (to_bits 8 3 ++ bytes_to_bits (s_hash_at sha256 body 0) ++ to_bits 16 (s_depth_at sha256 body 0)) [body] in
  wf_exotic mp = true /\ depth_okb sha256 mp = true /\ s_mask body = 1 /\ s_mask mp = 0 /\
  s_hash_at sha256 body 0 = s_hash sha256 (Cell (-1) [false; true] [t; Cell (-1) [] []]).
Proof. vm_compute. repeat split; reflexivity. Qed.
Example C02_mask6 :
  let p := Cell 1 (to_bits 8 1 ++ to_bits 8 6 ++ repeat true 512 ++ to_bits 16 3 ++ to_bits 16 4) [] in
  wf_exotic p = true /\ is_ok (build sha256 p) = true.
Proof. vm_compute. split; reflexivity. Qed.
