(* C16 - TL-B: for every covered type, the library's hand-written parser (as traced into the decision tree
   impl_<T> of Gen/TlbImpl.v) returns every field with the encoded value and consumes exactly the encoded
   bits and references, for every value encoded as block.tlb prescribes (Spec/BlockTlb.v, Spec/Tlb.v).

   Shape of the first 87 theorems:  for every value v admitted by the layout spec_<T> (wt), its
   encoding (bits, refs) per the schema (encode), any trailing bits tb and references tr, and any fuel
   above the stated bound, run_type on the cell (bits ++ tb, refs ++ tr) returns v and the slice (tb, tr).
   Each is an instance of Proofs/TlbProofs.v: compile_correct (generic, proved once) transferred to the
   generated tree by the computational check impl_<T> = compile spec_<T> (impl_agree).
   Each Example exhibits a well-typed value, whose encoding exists and is parsed back by the tree.

   Dictionary-valued fields (HashmapE n X) are covered: a non-empty dictionary is encoded as the
   canonical Patricia tree of Spec/Hashmap.v with the reference label kinds (the value must fit the cell
   limits, which [encode] checks).  Not covered: addr_var addresses (not representable in the model).

   The second part of the file (after NftItemSaleData) covers the types that need more of the layout
   language: ShardAccount and Transaction (the object keeps the cell it was parsed from), ValidatorSet
   (inline Hashmap), TransactionDescr / CommonMsgInfo / InMsg (dispatch on a tag read in pieces or only
   looked at), MessageAny (Either fields, inline Any body), MsgEnvelope, TransactionSplitInstall,
   TransactionMergeInstall, ConfigParam32..37; their statements are explained there.

   Types of Spec/BlockTlb.v whose layout refers to a type outside spec_table (WorkchainDescr,
   WalletMessage) have the tree equality
   (TlbProofs.impl_<T>_is_spec) but no theorem here: ConfigParam12, HighloadWalletData.
   ConfigParam20 / 21 / 29: their parent types are not traced (no tree).  ConfigParam79 / 81 / 82 inherit the
   finding of JettonBridgeParams (TlbProofs.impl_ConfigParam79_differs ...).
   The wrappers `_ T = ConfigParam N` (8, 11, 13, 14, 22-25, 28, 44, 71-73) parse as T and return an object of class
   ConfigParamN (Spec/BlockTlb.v: as_class).
   AccountBlock (inline HashmapAug): C16_AccountBlock.  BlockInfo, BlkPrevInfo 0/1, ShardDescr, OutMsg: at the end
   of the file (C16_OutMsg).
   ShardAccounts (HashmapAugE): tree equality only (TlbProofs.impl_ShardAccounts_is_spec): the library never reads
   the top-level extra of a HashmapAugE (ShardAccounts_extra_unread).
   Findings (tree <> compilation of the faithful layout; TlbProofs.impl_<T>_differs):
   WorkchainFormat 0 / 1, JettonBridgeParams.  (ValueFlow: repaired in the library, see C16_ValueFlow.) *)
From Coq Require Import NArith ZArith List Bool String.
From PTQ Require Import Base.Result Model.Cell Model.Builder Model.Dtree Spec.Tlb Spec.BlockTlb Gen.TlbImpl
  Proofs.TlbProofs.
Import ListNotations.
Local Open Scope Z_scope.

(* well-typedness of a closed value, by computation *)
(* (simple refine: [split] re-checks the whole remaining conjunction at every step) *)
Local Ltac wt_tac :=
  vm_compute; repeat match goal with |- _ /\ _ => simple refine (conj _ _) end;
  try exact I; try exact eq_refl; try discriminate.

(* ---- AccStatusChange ---- *)
Theorem C16_AccStatusChange : forall v tb tr bits refs fuel,
  wt spec_table spec_AccStatusChange v -> encode spec_table spec_AccStatusChange v = Ok (bits, refs) -> (8 <= fuel)%nat ->
  run_type impl_table fuel "AccStatusChange" [] (Cell (-1) (bits ++ tb) (refs ++ tr)) = Ok (v, mkS tb tr).
Proof. exact (C16_generic "AccStatusChange" spec_AccStatusChange 8 eq_refl eq_refl). Qed.
Print Assumptions C16_AccStatusChange.

Definition ex_AccStatusChange : pv :=
  PObj "AccStatusChange" [("type_"%string, PStr "deleted")].
Example C16_AccStatusChange_ex :
  wt spec_table spec_AccStatusChange ex_AccStatusChange /\
  match encode spec_table spec_AccStatusChange ex_AccStatusChange with
  | Ok (bits, refs) =>
      run_type impl_table 8 "AccStatusChange" [] (Cell (-1) (bits ++ [true; false]) (refs ++ [Cell (-1) [] []]))
      = Ok (ex_AccStatusChange, mkS [true; false] [Cell (-1) [] []])
  | Err _ => False
  end.
Proof. split; [wt_tac|vm_compute; reflexivity]. Qed.

(* ---- AccountStatus ---- *)
Theorem C16_AccountStatus : forall v tb tr bits refs fuel,
  wt spec_table spec_AccountStatus v -> encode spec_table spec_AccountStatus v = Ok (bits, refs) -> (8 <= fuel)%nat ->
  run_type impl_table fuel "AccountStatus" [] (Cell (-1) (bits ++ tb) (refs ++ tr)) = Ok (v, mkS tb tr).
Proof. exact (C16_generic "AccountStatus" spec_AccountStatus 8 eq_refl eq_refl). Qed.
Print Assumptions C16_AccountStatus.

Definition ex_AccountStatus : pv :=
  PObj "AccountStatus" [("type_"%string, PStr "nonexist")].
Example C16_AccountStatus_ex :
  wt spec_table spec_AccountStatus ex_AccountStatus /\
  match encode spec_table spec_AccountStatus ex_AccountStatus with
  | Ok (bits, refs) =>
      run_type impl_table 8 "AccountStatus" [] (Cell (-1) (bits ++ [true; false]) (refs ++ [Cell (-1) [] []]))
      = Ok (ex_AccountStatus, mkS [true; false] [Cell (-1) [] []])
  | Err _ => False
  end.
Proof. split; [wt_tac|vm_compute; reflexivity]. Qed.

(* ---- ComputeSkipReason ---- *)
Theorem C16_ComputeSkipReason : forall v tb tr bits refs fuel,
  wt spec_table spec_ComputeSkipReason v -> encode spec_table spec_ComputeSkipReason v = Ok (bits, refs) -> (10 <= fuel)%nat ->
  run_type impl_table fuel "ComputeSkipReason" [] (Cell (-1) (bits ++ tb) (refs ++ tr)) = Ok (v, mkS tb tr).
Proof. exact (C16_generic "ComputeSkipReason" spec_ComputeSkipReason 10 eq_refl eq_refl). Qed.
Print Assumptions C16_ComputeSkipReason.

Definition ex_ComputeSkipReason : pv :=
  PObj "ComputeSkipReason" [("type_"%string, PStr "suspended")].
Example C16_ComputeSkipReason_ex :
  wt spec_table spec_ComputeSkipReason ex_ComputeSkipReason /\
  match encode spec_table spec_ComputeSkipReason ex_ComputeSkipReason with
  | Ok (bits, refs) =>
      run_type impl_table 10 "ComputeSkipReason" [] (Cell (-1) (bits ++ [true; false]) (refs ++ [Cell (-1) [] []]))
      = Ok (ex_ComputeSkipReason, mkS [true; false] [Cell (-1) [] []])
  | Err _ => False
  end.
Proof. split; [wt_tac|vm_compute; reflexivity]. Qed.

(* ---- TickTock ---- *)
Theorem C16_TickTock : forall v tb tr bits refs fuel,
  wt spec_table spec_TickTock v -> encode spec_table spec_TickTock v = Ok (bits, refs) -> (6 <= fuel)%nat ->
  run_type impl_table fuel "TickTock" [] (Cell (-1) (bits ++ tb) (refs ++ tr)) = Ok (v, mkS tb tr).
Proof. exact (C16_generic "TickTock" spec_TickTock 6 eq_refl eq_refl). Qed.
Print Assumptions C16_TickTock.

Definition ex_TickTock : pv :=
  PObj "TickTock" [("tick"%string, PBool true); ("tock"%string, PBool true)].
Example C16_TickTock_ex :
  wt spec_table spec_TickTock ex_TickTock /\
  match encode spec_table spec_TickTock ex_TickTock with
  | Ok (bits, refs) =>
      run_type impl_table 6 "TickTock" [] (Cell (-1) (bits ++ [true; false]) (refs ++ [Cell (-1) [] []]))
      = Ok (ex_TickTock, mkS [true; false] [Cell (-1) [] []])
  | Err _ => False
  end.
Proof. split; [wt_tac|vm_compute; reflexivity]. Qed.

(* ---- ExtraCurrencyCollection ---- *)
Theorem C16_ExtraCurrencyCollection : forall v tb tr bits refs fuel,
  wt spec_table spec_ExtraCurrencyCollection v -> encode spec_table spec_ExtraCurrencyCollection v = Ok (bits, refs) -> (8 <= fuel)%nat ->
  run_type impl_table fuel "ExtraCurrencyCollection" [] (Cell (-1) (bits ++ tb) (refs ++ tr)) = Ok (v, mkS tb tr).
Proof. exact (C16_generic "ExtraCurrencyCollection" spec_ExtraCurrencyCollection 8 eq_refl eq_refl). Qed.
Print Assumptions C16_ExtraCurrencyCollection.

Definition ex_ExtraCurrencyCollection : pv :=
  PObj "ExtraCurrencyCollection" [("dict"%string, PDict [(3, PInt 300); (10, PInt 300); (11, PInt
    300)])].
Example C16_ExtraCurrencyCollection_ex :
  wt spec_table spec_ExtraCurrencyCollection ex_ExtraCurrencyCollection /\
  match encode spec_table spec_ExtraCurrencyCollection ex_ExtraCurrencyCollection with
  | Ok (bits, refs) =>
      run_type impl_table 8 "ExtraCurrencyCollection" [] (Cell (-1) (bits ++ [true; false]) (refs ++ [Cell (-1) [] []]))
      = Ok (ex_ExtraCurrencyCollection, mkS [true; false] [Cell (-1) [] []])
  | Err _ => False
  end.
Proof. split; [wt_tac|vm_compute; reflexivity]. Qed.

(* ---- CurrencyCollection ---- *)
Theorem C16_CurrencyCollection : forall v tb tr bits refs fuel,
  wt spec_table spec_CurrencyCollection v -> encode spec_table spec_CurrencyCollection v = Ok (bits, refs) -> (14 <= fuel)%nat ->
  run_type impl_table fuel "CurrencyCollection" [] (Cell (-1) (bits ++ tb) (refs ++ tr)) = Ok (v, mkS tb tr).
Proof. exact (C16_generic "CurrencyCollection" spec_CurrencyCollection 14 eq_refl eq_refl). Qed.
Print Assumptions C16_CurrencyCollection.

Definition ex_CurrencyCollection : pv :=
  PObj "CurrencyCollection" [("grams"%string, PInt 1000000007); ("other"%string, PObj
    "ExtraCurrencyCollection" [("dict"%string, PDict [(3, PInt 300); (10, PInt 300); (11, PInt 300)])])].
Example C16_CurrencyCollection_ex :
  wt spec_table spec_CurrencyCollection ex_CurrencyCollection /\
  match encode spec_table spec_CurrencyCollection ex_CurrencyCollection with
  | Ok (bits, refs) =>
      run_type impl_table 14 "CurrencyCollection" [] (Cell (-1) (bits ++ [true; false]) (refs ++ [Cell (-1) [] []]))
      = Ok (ex_CurrencyCollection, mkS [true; false] [Cell (-1) [] []])
  | Err _ => False
  end.
Proof. split; [wt_tac|vm_compute; reflexivity]. Qed.

(* ---- StorageUsed ---- *)
Theorem C16_StorageUsed : forall v tb tr bits refs fuel,
  wt spec_table spec_StorageUsed v -> encode spec_table spec_StorageUsed v = Ok (bits, refs) -> (7 <= fuel)%nat ->
  run_type impl_table fuel "StorageUsed" [] (Cell (-1) (bits ++ tb) (refs ++ tr)) = Ok (v, mkS tb tr).
Proof. exact (C16_generic "StorageUsed" spec_StorageUsed 7 eq_refl eq_refl). Qed.
Print Assumptions C16_StorageUsed.

Definition ex_StorageUsed : pv :=
  PObj "StorageUsed" [("bits"%string, PInt 300); ("cells"%string, PInt 300); ("public_cells"%string,
    PInt 300)].
Example C16_StorageUsed_ex :
  wt spec_table spec_StorageUsed ex_StorageUsed /\
  match encode spec_table spec_StorageUsed ex_StorageUsed with
  | Ok (bits, refs) =>
      run_type impl_table 7 "StorageUsed" [] (Cell (-1) (bits ++ [true; false]) (refs ++ [Cell (-1) [] []]))
      = Ok (ex_StorageUsed, mkS [true; false] [Cell (-1) [] []])
  | Err _ => False
  end.
Proof. split; [wt_tac|vm_compute; reflexivity]. Qed.

(* ---- StorageUsedShort ---- *)
Theorem C16_StorageUsedShort : forall v tb tr bits refs fuel,
  wt spec_table spec_StorageUsedShort v -> encode spec_table spec_StorageUsedShort v = Ok (bits, refs) -> (6 <= fuel)%nat ->
  run_type impl_table fuel "StorageUsedShort" [] (Cell (-1) (bits ++ tb) (refs ++ tr)) = Ok (v, mkS tb tr).
Proof. exact (C16_generic "StorageUsedShort" spec_StorageUsedShort 6 eq_refl eq_refl). Qed.
Print Assumptions C16_StorageUsedShort.

Definition ex_StorageUsedShort : pv :=
  PObj "StorageUsedShort" [("bits"%string, PInt 300); ("cells"%string, PInt 300)].
Example C16_StorageUsedShort_ex :
  wt spec_table spec_StorageUsedShort ex_StorageUsedShort /\
  match encode spec_table spec_StorageUsedShort ex_StorageUsedShort with
  | Ok (bits, refs) =>
      run_type impl_table 6 "StorageUsedShort" [] (Cell (-1) (bits ++ [true; false]) (refs ++ [Cell (-1) [] []]))
      = Ok (ex_StorageUsedShort, mkS [true; false] [Cell (-1) [] []])
  | Err _ => False
  end.
Proof. split; [wt_tac|vm_compute; reflexivity]. Qed.

(* ---- StorageInfo ---- *)
Theorem C16_StorageInfo : forall v tb tr bits refs fuel,
  wt spec_table spec_StorageInfo v -> encode spec_table spec_StorageInfo v = Ok (bits, refs) -> (16 <= fuel)%nat ->
  run_type impl_table fuel "StorageInfo" [] (Cell (-1) (bits ++ tb) (refs ++ tr)) = Ok (v, mkS tb tr).
Proof. exact (C16_generic "StorageInfo" spec_StorageInfo 16 eq_refl eq_refl). Qed.
Print Assumptions C16_StorageInfo.

Definition ex_StorageInfo : pv :=
  PObj "StorageInfo" [("due_payment"%string, PInt 1000000007); ("last_paid"%string, PInt 954413);
    ("used"%string, PObj "StorageUsed" [("bits"%string, PInt 300); ("cells"%string, PInt 300);
    ("public_cells"%string, PInt 300)])].
Example C16_StorageInfo_ex :
  wt spec_table spec_StorageInfo ex_StorageInfo /\
  match encode spec_table spec_StorageInfo ex_StorageInfo with
  | Ok (bits, refs) =>
      run_type impl_table 16 "StorageInfo" [] (Cell (-1) (bits ++ [true; false]) (refs ++ [Cell (-1) [] []]))
      = Ok (ex_StorageInfo, mkS [true; false] [Cell (-1) [] []])
  | Err _ => False
  end.
Proof. split; [wt_tac|vm_compute; reflexivity]. Qed.

(* ---- TrStoragePhase ---- *)
Theorem C16_TrStoragePhase : forall v tb tr bits refs fuel,
  wt spec_table spec_TrStoragePhase v -> encode spec_table spec_TrStoragePhase v = Ok (bits, refs) -> (17 <= fuel)%nat ->
  run_type impl_table fuel "TrStoragePhase" [] (Cell (-1) (bits ++ tb) (refs ++ tr)) = Ok (v, mkS tb tr).
Proof. exact (C16_generic "TrStoragePhase" spec_TrStoragePhase 17 eq_refl eq_refl). Qed.
Print Assumptions C16_TrStoragePhase.

Definition ex_TrStoragePhase : pv :=
  PObj "TrStoragePhase" [("status_change"%string, PObj "AccStatusChange" [("type_"%string, PStr
    "deleted")]); ("storage_fees_collected"%string, PInt 1000000007); ("storage_fees_due"%string, PInt
    1000000007)].
Example C16_TrStoragePhase_ex :
  wt spec_table spec_TrStoragePhase ex_TrStoragePhase /\
  match encode spec_table spec_TrStoragePhase ex_TrStoragePhase with
  | Ok (bits, refs) =>
      run_type impl_table 17 "TrStoragePhase" [] (Cell (-1) (bits ++ [true; false]) (refs ++ [Cell (-1) [] []]))
      = Ok (ex_TrStoragePhase, mkS [true; false] [Cell (-1) [] []])
  | Err _ => False
  end.
Proof. split; [wt_tac|vm_compute; reflexivity]. Qed.

(* ---- TrCreditPhase ---- *)
Theorem C16_TrCreditPhase : forall v tb tr bits refs fuel,
  wt spec_table spec_TrCreditPhase v -> encode spec_table spec_TrCreditPhase v = Ok (bits, refs) -> (22 <= fuel)%nat ->
  run_type impl_table fuel "TrCreditPhase" [] (Cell (-1) (bits ++ tb) (refs ++ tr)) = Ok (v, mkS tb tr).
Proof. exact (C16_generic "TrCreditPhase" spec_TrCreditPhase 22 eq_refl eq_refl). Qed.
Print Assumptions C16_TrCreditPhase.

Definition ex_TrCreditPhase : pv :=
  PObj "TrCreditPhase" [("credit"%string, PObj "CurrencyCollection" [("grams"%string, PInt 1000000007);
    ("other"%string, PObj "ExtraCurrencyCollection" [("dict"%string, PDict [(3, PInt 300); (10, PInt
    300); (11, PInt 300)])])]); ("due_fees_collected"%string, PInt 1000000007)].
Example C16_TrCreditPhase_ex :
  wt spec_table spec_TrCreditPhase ex_TrCreditPhase /\
  match encode spec_table spec_TrCreditPhase ex_TrCreditPhase with
  | Ok (bits, refs) =>
      run_type impl_table 22 "TrCreditPhase" [] (Cell (-1) (bits ++ [true; false]) (refs ++ [Cell (-1) [] []]))
      = Ok (ex_TrCreditPhase, mkS [true; false] [Cell (-1) [] []])
  | Err _ => False
  end.
Proof. split; [wt_tac|vm_compute; reflexivity]. Qed.

(* ---- TrComputePhase ---- *)
Theorem C16_TrComputePhase : forall v tb tr bits refs fuel,
  wt spec_table spec_TrComputePhase v -> encode spec_table spec_TrComputePhase v = Ok (bits, refs) -> (24 <= fuel)%nat ->
  run_type impl_table fuel "TrComputePhase" [] (Cell (-1) (bits ++ tb) (refs ++ tr)) = Ok (v, mkS tb tr).
Proof. exact (C16_generic "TrComputePhase" spec_TrComputePhase 24 eq_refl eq_refl). Qed.
Print Assumptions C16_TrComputePhase.

Definition ex_TrComputePhase : pv :=
  PObj "TrComputePhase" [("account_activated"%string, PBool true); ("exit_arg"%string, PInt (-3));
    ("exit_code"%string, PInt (-3)); ("gas_credit"%string, PInt 300); ("gas_fees"%string, PInt
    1000000007); ("gas_limit"%string, PInt 300); ("gas_used"%string, PInt 300); ("mode"%string, PInt
    (-3)); ("msg_state_used"%string, PBool true); ("success"%string, PBool true); ("type_"%string, PStr
    "vm"); ("vm_final_state_hash"%string, PBytes [7%N; 14%N; 21%N; 28%N; 35%N; 42%N; 49%N; 56%N; 63%N;
    70%N; 77%N; 84%N; 91%N; 98%N; 105%N; 112%N; 119%N; 126%N; 133%N; 140%N; 147%N; 154%N; 161%N; 168%N;
    175%N; 182%N; 189%N; 196%N; 203%N; 210%N; 217%N; 224%N]); ("vm_init_state_hash"%string, PBytes [7%N;
    14%N; 21%N; 28%N; 35%N; 42%N; 49%N; 56%N; 63%N; 70%N; 77%N; 84%N; 91%N; 98%N; 105%N; 112%N; 119%N;
    126%N; 133%N; 140%N; 147%N; 154%N; 161%N; 168%N; 175%N; 182%N; 189%N; 196%N; 203%N; 210%N; 217%N;
    224%N]); ("vm_steps"%string, PInt 954413)].
Example C16_TrComputePhase_ex :
  wt spec_table spec_TrComputePhase ex_TrComputePhase /\
  match encode spec_table spec_TrComputePhase ex_TrComputePhase with
  | Ok (bits, refs) =>
      run_type impl_table 24 "TrComputePhase" [] (Cell (-1) (bits ++ [true; false]) (refs ++ [Cell (-1) [] []]))
      = Ok (ex_TrComputePhase, mkS [true; false] [Cell (-1) [] []])
  | Err _ => False
  end.
Proof. split; [wt_tac|vm_compute; reflexivity]. Qed.

(* ---- TrBouncePhase ---- *)
Theorem C16_TrBouncePhase : forall v tb tr bits refs fuel,
  wt spec_table spec_TrBouncePhase v -> encode spec_table spec_TrBouncePhase v = Ok (bits, refs) -> (17 <= fuel)%nat ->
  run_type impl_table fuel "TrBouncePhase" [] (Cell (-1) (bits ++ tb) (refs ++ tr)) = Ok (v, mkS tb tr).
Proof. exact (C16_generic "TrBouncePhase" spec_TrBouncePhase 17 eq_refl eq_refl). Qed.
Print Assumptions C16_TrBouncePhase.

Definition ex_TrBouncePhase : pv :=
  PObj "TrBouncePhase" [("fwd_fees"%string, PInt 1000000007); ("msg_fees"%string, PInt 1000000007);
    ("msg_size"%string, PObj "StorageUsedShort" [("bits"%string, PInt 300); ("cells"%string, PInt
    300)]); ("type_"%string, PStr "ok")].
Example C16_TrBouncePhase_ex :
  wt spec_table spec_TrBouncePhase ex_TrBouncePhase /\
  match encode spec_table spec_TrBouncePhase ex_TrBouncePhase with
  | Ok (bits, refs) =>
      run_type impl_table 17 "TrBouncePhase" [] (Cell (-1) (bits ++ [true; false]) (refs ++ [Cell (-1) [] []]))
      = Ok (ex_TrBouncePhase, mkS [true; false] [Cell (-1) [] []])
  | Err _ => False
  end.
Proof. split; [wt_tac|vm_compute; reflexivity]. Qed.

(* ---- TrActionPhase ---- *)
Theorem C16_TrActionPhase : forall v tb tr bits refs fuel,
  wt spec_table spec_TrActionPhase v -> encode spec_table spec_TrActionPhase v = Ok (bits, refs) -> (38 <= fuel)%nat ->
  run_type impl_table fuel "TrActionPhase" [] (Cell (-1) (bits ++ tb) (refs ++ tr)) = Ok (v, mkS tb tr).
Proof. exact (C16_generic "TrActionPhase" spec_TrActionPhase 38 eq_refl eq_refl). Qed.
Print Assumptions C16_TrActionPhase.

Definition ex_TrActionPhase : pv :=
  PObj "TrActionPhase" [("action_list_hash"%string, PBytes [7%N; 14%N; 21%N; 28%N; 35%N; 42%N; 49%N;
    56%N; 63%N; 70%N; 77%N; 84%N; 91%N; 98%N; 105%N; 112%N; 119%N; 126%N; 133%N; 140%N; 147%N; 154%N;
    161%N; 168%N; 175%N; 182%N; 189%N; 196%N; 203%N; 210%N; 217%N; 224%N]); ("msgs_created"%string, PInt
    65535); ("no_funds"%string, PBool true); ("result_arg"%string, PInt (-3)); ("result_code"%string,
    PInt (-3)); ("skipped_actions"%string, PInt 65535); ("spec_actions"%string, PInt 65535);
    ("status_change"%string, PObj "AccStatusChange" [("type_"%string, PStr "deleted")]);
    ("success"%string, PBool true); ("tot_actions"%string, PInt 65535); ("tot_msg_size"%string, PObj
    "StorageUsedShort" [("bits"%string, PInt 300); ("cells"%string, PInt 300)]);
    ("total_action_fees"%string, PInt 1000000007); ("total_fwd_fees"%string, PInt 1000000007);
    ("valid"%string, PBool true)].
Example C16_TrActionPhase_ex :
  wt spec_table spec_TrActionPhase ex_TrActionPhase /\
  match encode spec_table spec_TrActionPhase ex_TrActionPhase with
  | Ok (bits, refs) =>
      run_type impl_table 38 "TrActionPhase" [] (Cell (-1) (bits ++ [true; false]) (refs ++ [Cell (-1) [] []]))
      = Ok (ex_TrActionPhase, mkS [true; false] [Cell (-1) [] []])
  | Err _ => False
  end.
Proof. split; [wt_tac|vm_compute; reflexivity]. Qed.

(* ---- ExtBlkRef ---- *)
Theorem C16_ExtBlkRef : forall v tb tr bits refs fuel,
  wt spec_table spec_ExtBlkRef v -> encode spec_table spec_ExtBlkRef v = Ok (bits, refs) -> (8 <= fuel)%nat ->
  run_type impl_table fuel "ExtBlkRef" [] (Cell (-1) (bits ++ tb) (refs ++ tr)) = Ok (v, mkS tb tr).
Proof. exact (C16_generic "ExtBlkRef" spec_ExtBlkRef 8 eq_refl eq_refl). Qed.
Print Assumptions C16_ExtBlkRef.

Definition ex_ExtBlkRef : pv :=
  PObj "ExtBlkRef" [("end_lt"%string, PInt 350686); ("file_hash"%string, PBytes [7%N; 14%N; 21%N; 28%N;
    35%N; 42%N; 49%N; 56%N; 63%N; 70%N; 77%N; 84%N; 91%N; 98%N; 105%N; 112%N; 119%N; 126%N; 133%N;
    140%N; 147%N; 154%N; 161%N; 168%N; 175%N; 182%N; 189%N; 196%N; 203%N; 210%N; 217%N; 224%N]);
    ("root_hash"%string, PBytes [7%N; 14%N; 21%N; 28%N; 35%N; 42%N; 49%N; 56%N; 63%N; 70%N; 77%N; 84%N;
    91%N; 98%N; 105%N; 112%N; 119%N; 126%N; 133%N; 140%N; 147%N; 154%N; 161%N; 168%N; 175%N; 182%N;
    189%N; 196%N; 203%N; 210%N; 217%N; 224%N]); ("seqno"%string, PInt 954413)].
Example C16_ExtBlkRef_ex :
  wt spec_table spec_ExtBlkRef ex_ExtBlkRef /\
  match encode spec_table spec_ExtBlkRef ex_ExtBlkRef with
  | Ok (bits, refs) =>
      run_type impl_table 8 "ExtBlkRef" [] (Cell (-1) (bits ++ [true; false]) (refs ++ [Cell (-1) [] []]))
      = Ok (ex_ExtBlkRef, mkS [true; false] [Cell (-1) [] []])
  | Err _ => False
  end.
Proof. split; [wt_tac|vm_compute; reflexivity]. Qed.

(* ---- BlkMasterInfo ---- *)
Theorem C16_BlkMasterInfo : forall v tb tr bits refs fuel,
  wt spec_table spec_BlkMasterInfo v -> encode spec_table spec_BlkMasterInfo v = Ok (bits, refs) -> (13 <= fuel)%nat ->
  run_type impl_table fuel "BlkMasterInfo" [] (Cell (-1) (bits ++ tb) (refs ++ tr)) = Ok (v, mkS tb tr).
Proof. exact (C16_generic "BlkMasterInfo" spec_BlkMasterInfo 13 eq_refl eq_refl). Qed.
Print Assumptions C16_BlkMasterInfo.

Definition ex_BlkMasterInfo : pv :=
  PObj "BlkMasterInfo" [("master"%string, PObj "ExtBlkRef" [("end_lt"%string, PInt 350686);
    ("file_hash"%string, PBytes [7%N; 14%N; 21%N; 28%N; 35%N; 42%N; 49%N; 56%N; 63%N; 70%N; 77%N; 84%N;
    91%N; 98%N; 105%N; 112%N; 119%N; 126%N; 133%N; 140%N; 147%N; 154%N; 161%N; 168%N; 175%N; 182%N;
    189%N; 196%N; 203%N; 210%N; 217%N; 224%N]); ("root_hash"%string, PBytes [7%N; 14%N; 21%N; 28%N;
    35%N; 42%N; 49%N; 56%N; 63%N; 70%N; 77%N; 84%N; 91%N; 98%N; 105%N; 112%N; 119%N; 126%N; 133%N;
    140%N; 147%N; 154%N; 161%N; 168%N; 175%N; 182%N; 189%N; 196%N; 203%N; 210%N; 217%N; 224%N]);
    ("seqno"%string, PInt 954413)])].
Example C16_BlkMasterInfo_ex :
  wt spec_table spec_BlkMasterInfo ex_BlkMasterInfo /\
  match encode spec_table spec_BlkMasterInfo ex_BlkMasterInfo with
  | Ok (bits, refs) =>
      run_type impl_table 13 "BlkMasterInfo" [] (Cell (-1) (bits ++ [true; false]) (refs ++ [Cell (-1) [] []]))
      = Ok (ex_BlkMasterInfo, mkS [true; false] [Cell (-1) [] []])
  | Err _ => False
  end.
Proof. split; [wt_tac|vm_compute; reflexivity]. Qed.

(* ---- GlobalVersion ---- *)
Theorem C16_GlobalVersion : forall v tb tr bits refs fuel,
  wt spec_table spec_GlobalVersion v -> encode spec_table spec_GlobalVersion v = Ok (bits, refs) -> (22 <= fuel)%nat ->
  run_type impl_table fuel "GlobalVersion" [] (Cell (-1) (bits ++ tb) (refs ++ tr)) = Ok (v, mkS tb tr).
Proof. exact (C16_generic "GlobalVersion" spec_GlobalVersion 22 eq_refl eq_refl). Qed.
Print Assumptions C16_GlobalVersion.

Definition ex_GlobalVersion : pv :=
  PObj "GlobalVersion" [("capabilities"%string, PInt 350686); ("version"%string, PInt 954413)].
Example C16_GlobalVersion_ex :
  wt spec_table spec_GlobalVersion ex_GlobalVersion /\
  match encode spec_table spec_GlobalVersion ex_GlobalVersion with
  | Ok (bits, refs) =>
      run_type impl_table 22 "GlobalVersion" [] (Cell (-1) (bits ++ [true; false]) (refs ++ [Cell (-1) [] []]))
      = Ok (ex_GlobalVersion, mkS [true; false] [Cell (-1) [] []])
  | Err _ => False
  end.
Proof. split; [wt_tac|vm_compute; reflexivity]. Qed.

(* ---- ShardIdent ---- *)
Theorem C16_ShardIdent : forall v tb tr bits refs fuel,
  wt spec_table spec_ShardIdent v -> encode spec_table spec_ShardIdent v = Ok (bits, refs) -> (11 <= fuel)%nat ->
  run_type impl_table fuel "ShardIdent" [] (Cell (-1) (bits ++ tb) (refs ++ tr)) = Ok (v, mkS tb tr).
Proof. exact (C16_generic "ShardIdent" spec_ShardIdent 11 eq_refl eq_refl). Qed.
Print Assumptions C16_ShardIdent.

Definition ex_ShardIdent : pv :=
  PObj "ShardIdent" [("shard_pfx_bits"%string, PInt 60); ("shard_prefix"%string, PInt 350686);
    ("workchain_id"%string, PInt (-3))].
Example C16_ShardIdent_ex :
  wt spec_table spec_ShardIdent ex_ShardIdent /\
  match encode spec_table spec_ShardIdent ex_ShardIdent with
  | Ok (bits, refs) =>
      run_type impl_table 11 "ShardIdent" [] (Cell (-1) (bits ++ [true; false]) (refs ++ [Cell (-1) [] []]))
      = Ok (ex_ShardIdent, mkS [true; false] [Cell (-1) [] []])
  | Err _ => False
  end.
Proof. split; [wt_tac|vm_compute; reflexivity]. Qed.

(* ---- FutureSplitMerge ---- *)
Theorem C16_FutureSplitMerge : forall v tb tr bits refs fuel,
  wt spec_table spec_FutureSplitMerge v -> encode spec_table spec_FutureSplitMerge v = Ok (bits, refs) -> (10 <= fuel)%nat ->
  run_type impl_table fuel "FutureSplitMerge" [] (Cell (-1) (bits ++ tb) (refs ++ tr)) = Ok (v, mkS tb tr).
Proof. exact (C16_generic "FutureSplitMerge" spec_FutureSplitMerge 10 eq_refl eq_refl). Qed.
Print Assumptions C16_FutureSplitMerge.

Definition ex_FutureSplitMerge : pv :=
  PObj "FutureSplitMerge" [("interval"%string, PInt 954413); ("merge_utime"%string, PInt 954413);
    ("type_"%string, PStr "fsm_merge")].
Example C16_FutureSplitMerge_ex :
  wt spec_table spec_FutureSplitMerge ex_FutureSplitMerge /\
  match encode spec_table spec_FutureSplitMerge ex_FutureSplitMerge with
  | Ok (bits, refs) =>
      run_type impl_table 10 "FutureSplitMerge" [] (Cell (-1) (bits ++ [true; false]) (refs ++ [Cell (-1) [] []]))
      = Ok (ex_FutureSplitMerge, mkS [true; false] [Cell (-1) [] []])
  | Err _ => False
  end.
Proof. split; [wt_tac|vm_compute; reflexivity]. Qed.

(* ---- SplitMergeInfo ---- *)
Theorem C16_SplitMergeInfo : forall v tb tr bits refs fuel,
  wt spec_table spec_SplitMergeInfo v -> encode spec_table spec_SplitMergeInfo v = Ok (bits, refs) -> (8 <= fuel)%nat ->
  run_type impl_table fuel "SplitMergeInfo" [] (Cell (-1) (bits ++ tb) (refs ++ tr)) = Ok (v, mkS tb tr).
Proof. exact (C16_generic "SplitMergeInfo" spec_SplitMergeInfo 8 eq_refl eq_refl). Qed.
Print Assumptions C16_SplitMergeInfo.

Definition ex_SplitMergeInfo : pv :=
  PObj "SplitMergeInfo" [("acc_split_depth"%string, PInt 63); ("cur_shard_pfx_len"%string, PInt 63);
    ("sibling_addr"%string, PHex [7%N; 14%N; 21%N; 28%N; 35%N; 42%N; 49%N; 56%N; 63%N; 70%N; 77%N; 84%N;
    91%N; 98%N; 105%N; 112%N; 119%N; 126%N; 133%N; 140%N; 147%N; 154%N; 161%N; 168%N; 175%N; 182%N;
    189%N; 196%N; 203%N; 210%N; 217%N; 224%N]); ("this_addr"%string, PHex [7%N; 14%N; 21%N; 28%N; 35%N;
    42%N; 49%N; 56%N; 63%N; 70%N; 77%N; 84%N; 91%N; 98%N; 105%N; 112%N; 119%N; 126%N; 133%N; 140%N;
    147%N; 154%N; 161%N; 168%N; 175%N; 182%N; 189%N; 196%N; 203%N; 210%N; 217%N; 224%N])].
Example C16_SplitMergeInfo_ex :
  wt spec_table spec_SplitMergeInfo ex_SplitMergeInfo /\
  match encode spec_table spec_SplitMergeInfo ex_SplitMergeInfo with
  | Ok (bits, refs) =>
      run_type impl_table 8 "SplitMergeInfo" [] (Cell (-1) (bits ++ [true; false]) (refs ++ [Cell (-1) [] []]))
      = Ok (ex_SplitMergeInfo, mkS [true; false] [Cell (-1) [] []])
  | Err _ => False
  end.
Proof. split; [wt_tac|vm_compute; reflexivity]. Qed.

(* ---- HashUpdate ---- *)
Theorem C16_HashUpdate : forall v tb tr bits refs fuel,
  wt spec_table spec_HashUpdate v -> encode spec_table spec_HashUpdate v = Ok (bits, refs) -> (22 <= fuel)%nat ->
  run_type impl_table fuel "HashUpdate" [] (Cell (-1) (bits ++ tb) (refs ++ tr)) = Ok (v, mkS tb tr).
Proof. exact (C16_generic "HashUpdate" spec_HashUpdate 22 eq_refl eq_refl). Qed.
Print Assumptions C16_HashUpdate.

Definition ex_HashUpdate : pv :=
  PObj "HashUpdate" [("new_hash"%string, PBytes [7%N; 14%N; 21%N; 28%N; 35%N; 42%N; 49%N; 56%N; 63%N;
    70%N; 77%N; 84%N; 91%N; 98%N; 105%N; 112%N; 119%N; 126%N; 133%N; 140%N; 147%N; 154%N; 161%N; 168%N;
    175%N; 182%N; 189%N; 196%N; 203%N; 210%N; 217%N; 224%N]); ("old_hash"%string, PBytes [7%N; 14%N;
    21%N; 28%N; 35%N; 42%N; 49%N; 56%N; 63%N; 70%N; 77%N; 84%N; 91%N; 98%N; 105%N; 112%N; 119%N; 126%N;
    133%N; 140%N; 147%N; 154%N; 161%N; 168%N; 175%N; 182%N; 189%N; 196%N; 203%N; 210%N; 217%N; 224%N])].
Example C16_HashUpdate_ex :
  wt spec_table spec_HashUpdate ex_HashUpdate /\
  match encode spec_table spec_HashUpdate ex_HashUpdate with
  | Ok (bits, refs) =>
      run_type impl_table 22 "HashUpdate" [] (Cell (-1) (bits ++ [true; false]) (refs ++ [Cell (-1) [] []]))
      = Ok (ex_HashUpdate, mkS [true; false] [Cell (-1) [] []])
  | Err _ => False
  end.
Proof. split; [wt_tac|vm_compute; reflexivity]. Qed.

(* ---- IntermediateAddress ---- *)
Theorem C16_IntermediateAddress : forall v tb tr bits refs fuel,
  wt spec_table spec_IntermediateAddress v -> encode spec_table spec_IntermediateAddress v = Ok (bits, refs) -> (10 <= fuel)%nat ->
  run_type impl_table fuel "IntermediateAddress" [] (Cell (-1) (bits ++ tb) (refs ++ tr)) = Ok (v, mkS tb tr).
Proof. exact (C16_generic "IntermediateAddress" spec_IntermediateAddress 10 eq_refl eq_refl). Qed.
Print Assumptions C16_IntermediateAddress.

Definition ex_IntermediateAddress : pv :=
  PObj "IntermediateAddress" [("addr_pfx"%string, PInt 350686); ("type_"%string, PStr
    "interm_addr_ext"); ("use_dest_bits"%string, PNone); ("workchain_id"%string, PInt (-3))].
Example C16_IntermediateAddress_ex :
  wt spec_table spec_IntermediateAddress ex_IntermediateAddress /\
  match encode spec_table spec_IntermediateAddress ex_IntermediateAddress with
  | Ok (bits, refs) =>
      run_type impl_table 10 "IntermediateAddress" [] (Cell (-1) (bits ++ [true; false]) (refs ++ [Cell (-1) [] []]))
      = Ok (ex_IntermediateAddress, mkS [true; false] [Cell (-1) [] []])
  | Err _ => False
  end.
Proof. split; [wt_tac|vm_compute; reflexivity]. Qed.

(* ---- MsgMetadata ---- *)
Theorem C16_MsgMetadata : forall v tb tr bits refs fuel,
  wt spec_table spec_MsgMetadata v -> encode spec_table spec_MsgMetadata v = Ok (bits, refs) -> (15 <= fuel)%nat ->
  run_type impl_table fuel "MsgMetadata" [] (Cell (-1) (bits ++ tb) (refs ++ tr)) = Ok (v, mkS tb tr).
Proof. exact (C16_generic "MsgMetadata" spec_MsgMetadata 15 eq_refl eq_refl). Qed.
Print Assumptions C16_MsgMetadata.

Definition ex_MsgMetadata : pv :=
  PObj "MsgMetadata" [("depth"%string, PInt 954413); ("initiator_addr"%string, PAddr (AddrStd (Some (3,
    5)) (-1) [7%N; 14%N; 21%N; 28%N; 35%N; 42%N; 49%N; 56%N; 63%N; 70%N; 77%N; 84%N; 91%N; 98%N; 105%N;
    112%N; 119%N; 126%N; 133%N; 140%N; 147%N; 154%N; 161%N; 168%N; 175%N; 182%N; 189%N; 196%N; 203%N;
    210%N; 217%N; 224%N])); ("initiator_lt"%string, PInt 350686)].
Example C16_MsgMetadata_ex :
  wt spec_table spec_MsgMetadata ex_MsgMetadata /\
  match encode spec_table spec_MsgMetadata ex_MsgMetadata with
  | Ok (bits, refs) =>
      run_type impl_table 15 "MsgMetadata" [] (Cell (-1) (bits ++ [true; false]) (refs ++ [Cell (-1) [] []]))
      = Ok (ex_MsgMetadata, mkS [true; false] [Cell (-1) [] []])
  | Err _ => False
  end.
Proof. split; [wt_tac|vm_compute; reflexivity]. Qed.

(* ---- InternalMsgInfo ---- *)
Theorem C16_InternalMsgInfo : forall v tb tr bits refs fuel,
  wt spec_table spec_InternalMsgInfo v -> encode spec_table spec_InternalMsgInfo v = Ok (bits, refs) -> (30 <= fuel)%nat ->
  run_type impl_table fuel "InternalMsgInfo" [] (Cell (-1) (bits ++ tb) (refs ++ tr)) = Ok (v, mkS tb tr).
Proof. exact (C16_generic "InternalMsgInfo" spec_InternalMsgInfo 30 eq_refl eq_refl). Qed.
Print Assumptions C16_InternalMsgInfo.

Definition ex_InternalMsgInfo : pv :=
  PObj "InternalMsgInfo" [("bounce"%string, PBool true); ("bounced"%string, PBool true);
    ("created_at"%string, PInt 954413); ("created_lt"%string, PInt 350686); ("dest"%string, PAddr
    (AddrStd (Some (3, 5)) (-1) [7%N; 14%N; 21%N; 28%N; 35%N; 42%N; 49%N; 56%N; 63%N; 70%N; 77%N; 84%N;
    91%N; 98%N; 105%N; 112%N; 119%N; 126%N; 133%N; 140%N; 147%N; 154%N; 161%N; 168%N; 175%N; 182%N;
    189%N; 196%N; 203%N; 210%N; 217%N; 224%N])); ("fwd_fee"%string, PInt 1000000007);
    ("ihr_disabled"%string, PBool true); ("ihr_fee"%string, PInt 1000000007); ("src"%string, PAddr
    (AddrStd (Some (3, 5)) (-1) [7%N; 14%N; 21%N; 28%N; 35%N; 42%N; 49%N; 56%N; 63%N; 70%N; 77%N; 84%N;
    91%N; 98%N; 105%N; 112%N; 119%N; 126%N; 133%N; 140%N; 147%N; 154%N; 161%N; 168%N; 175%N; 182%N;
    189%N; 196%N; 203%N; 210%N; 217%N; 224%N])); ("value"%string, PObj "CurrencyCollection"
    [("grams"%string, PInt 1000000007); ("other"%string, PObj "ExtraCurrencyCollection" [("dict"%string,
    PDict [(3, PInt 300); (10, PInt 300); (11, PInt 300)])])])].
Example C16_InternalMsgInfo_ex :
  wt spec_table spec_InternalMsgInfo ex_InternalMsgInfo /\
  match encode spec_table spec_InternalMsgInfo ex_InternalMsgInfo with
  | Ok (bits, refs) =>
      run_type impl_table 30 "InternalMsgInfo" [] (Cell (-1) (bits ++ [true; false]) (refs ++ [Cell (-1) [] []]))
      = Ok (ex_InternalMsgInfo, mkS [true; false] [Cell (-1) [] []])
  | Err _ => False
  end.
Proof. split; [wt_tac|vm_compute; reflexivity]. Qed.

(* ---- ExternalMsgInfo ---- *)
Theorem C16_ExternalMsgInfo : forall v tb tr bits refs fuel,
  wt spec_table spec_ExternalMsgInfo v -> encode spec_table spec_ExternalMsgInfo v = Ok (bits, refs) -> (11 <= fuel)%nat ->
  run_type impl_table fuel "ExternalMsgInfo" [] (Cell (-1) (bits ++ tb) (refs ++ tr)) = Ok (v, mkS tb tr).
Proof. exact (C16_generic "ExternalMsgInfo" spec_ExternalMsgInfo 11 eq_refl eq_refl). Qed.
Print Assumptions C16_ExternalMsgInfo.

Definition ex_ExternalMsgInfo : pv :=
  PObj "ExternalMsgInfo" [("dest"%string, PAddr (AddrStd (Some (3, 5)) (-1) [7%N; 14%N; 21%N; 28%N;
    35%N; 42%N; 49%N; 56%N; 63%N; 70%N; 77%N; 84%N; 91%N; 98%N; 105%N; 112%N; 119%N; 126%N; 133%N;
    140%N; 147%N; 154%N; 161%N; 168%N; 175%N; 182%N; 189%N; 196%N; 203%N; 210%N; 217%N; 224%N]));
    ("import_fee"%string, PInt 1000000007); ("src"%string, PAddr (AddrExt 5 9))].
Example C16_ExternalMsgInfo_ex :
  wt spec_table spec_ExternalMsgInfo ex_ExternalMsgInfo /\
  match encode spec_table spec_ExternalMsgInfo ex_ExternalMsgInfo with
  | Ok (bits, refs) =>
      run_type impl_table 11 "ExternalMsgInfo" [] (Cell (-1) (bits ++ [true; false]) (refs ++ [Cell (-1) [] []]))
      = Ok (ex_ExternalMsgInfo, mkS [true; false] [Cell (-1) [] []])
  | Err _ => False
  end.
Proof. split; [wt_tac|vm_compute; reflexivity]. Qed.

(* ---- ExternalOutMsgInfo ---- *)
Theorem C16_ExternalOutMsgInfo : forall v tb tr bits refs fuel,
  wt spec_table spec_ExternalOutMsgInfo v -> encode spec_table spec_ExternalOutMsgInfo v = Ok (bits, refs) -> (12 <= fuel)%nat ->
  run_type impl_table fuel "ExternalOutMsgInfo" [] (Cell (-1) (bits ++ tb) (refs ++ tr)) = Ok (v, mkS tb tr).
Proof. exact (C16_generic "ExternalOutMsgInfo" spec_ExternalOutMsgInfo 12 eq_refl eq_refl). Qed.
Print Assumptions C16_ExternalOutMsgInfo.

Definition ex_ExternalOutMsgInfo : pv :=
  PObj "ExternalOutMsgInfo" [("created_at"%string, PInt 954413); ("created_lt"%string, PInt 350686);
    ("dest"%string, PAddr (AddrExt 5 9)); ("src"%string, PAddr (AddrStd (Some (3, 5)) (-1) [7%N; 14%N;
    21%N; 28%N; 35%N; 42%N; 49%N; 56%N; 63%N; 70%N; 77%N; 84%N; 91%N; 98%N; 105%N; 112%N; 119%N; 126%N;
    133%N; 140%N; 147%N; 154%N; 161%N; 168%N; 175%N; 182%N; 189%N; 196%N; 203%N; 210%N; 217%N; 224%N]))].
Example C16_ExternalOutMsgInfo_ex :
  wt spec_table spec_ExternalOutMsgInfo ex_ExternalOutMsgInfo /\
  match encode spec_table spec_ExternalOutMsgInfo ex_ExternalOutMsgInfo with
  | Ok (bits, refs) =>
      run_type impl_table 12 "ExternalOutMsgInfo" [] (Cell (-1) (bits ++ [true; false]) (refs ++ [Cell (-1) [] []]))
      = Ok (ex_ExternalOutMsgInfo, mkS [true; false] [Cell (-1) [] []])
  | Err _ => False
  end.
Proof. split; [wt_tac|vm_compute; reflexivity]. Qed.

(* ---- StateInit ---- *)
Theorem C16_StateInit : forall v tb tr bits refs fuel,
  wt spec_table spec_StateInit v -> encode spec_table spec_StateInit v = Ok (bits, refs) -> (25 <= fuel)%nat ->
  run_type impl_table fuel "StateInit" [] (Cell (-1) (bits ++ tb) (refs ++ tr)) = Ok (v, mkS tb tr).
Proof. exact (C16_generic "StateInit" spec_StateInit 25 eq_refl eq_refl). Qed.
Print Assumptions C16_StateInit.

Definition ex_StateInit : pv :=
  PObj "StateInit" [("code"%string, PCell (Cell (-1) [true; false; true] [])); ("data"%string, PCell
    (Cell (-1) [true; false; true] [])); ("library"%string, PCell (Cell (-1) [true; false; true] []));
    ("special"%string, PObj "TickTock" [("tick"%string, PBool true); ("tock"%string, PBool true)]);
    ("split_depth"%string, PInt 31)].
Example C16_StateInit_ex :
  wt spec_table spec_StateInit ex_StateInit /\
  match encode spec_table spec_StateInit ex_StateInit with
  | Ok (bits, refs) =>
      run_type impl_table 25 "StateInit" [] (Cell (-1) (bits ++ [true; false]) (refs ++ [Cell (-1) [] []]))
      = Ok (ex_StateInit, mkS [true; false] [Cell (-1) [] []])
  | Err _ => False
  end.
Proof. split; [wt_tac|vm_compute; reflexivity]. Qed.

(* ---- SigPubKey ---- *)
Theorem C16_SigPubKey : forall v tb tr bits refs fuel,
  wt spec_table spec_SigPubKey v -> encode spec_table spec_SigPubKey v = Ok (bits, refs) -> (69 <= fuel)%nat ->
  run_type impl_table fuel "SigPubKey" [] (Cell (-1) (bits ++ tb) (refs ++ tr)) = Ok (v, mkS tb tr).
Proof. exact (C16_generic "SigPubKey" spec_SigPubKey 69 eq_refl eq_refl). Qed.
Print Assumptions C16_SigPubKey.

Definition ex_SigPubKey : pv :=
  PObj "SigPubKey" [("pubkey"%string, PBytes [7%N; 14%N; 21%N; 28%N; 35%N; 42%N; 49%N; 56%N; 63%N; 70%N;
    77%N; 84%N; 91%N; 98%N; 105%N; 112%N; 119%N; 126%N; 133%N; 140%N; 147%N; 154%N; 161%N; 168%N; 175%N;
    182%N; 189%N; 196%N; 203%N; 210%N; 217%N; 224%N])].
Example C16_SigPubKey_ex :
  wt spec_table spec_SigPubKey ex_SigPubKey /\
  match encode spec_table spec_SigPubKey ex_SigPubKey with
  | Ok (bits, refs) =>
      run_type impl_table 69 "SigPubKey" [] (Cell (-1) (bits ++ [true; false]) (refs ++ [Cell (-1) [] []]))
      = Ok (ex_SigPubKey, mkS [true; false] [Cell (-1) [] []])
  | Err _ => False
  end.
Proof. split; [wt_tac|vm_compute; reflexivity]. Qed.

(* ---- CatchainConfig ---- *)
Theorem C16_CatchainConfig : forall v tb tr bits refs fuel,
  wt spec_table spec_CatchainConfig v -> encode spec_table spec_CatchainConfig v = Ok (bits, refs) -> (33 <= fuel)%nat ->
  run_type impl_table fuel "CatchainConfig" [] (Cell (-1) (bits ++ tb) (refs ++ tr)) = Ok (v, mkS tb tr).
Proof. exact (C16_generic "CatchainConfig" spec_CatchainConfig 33 eq_refl eq_refl). Qed.
Print Assumptions C16_CatchainConfig.

Definition ex_CatchainConfig : pv :=
  PObj "CatchainConfig" [("mc_catchain_lifetime"%string, PInt 954413);
    ("shard_catchain_lifetime"%string, PInt 954413); ("shard_validators_lifetime"%string, PInt 954413);
    ("shard_validators_num"%string, PInt 954413); ("shuffle_mc_validators"%string, PBool true);
    ("type_"%string, PStr "catchain_config_new")].
Example C16_CatchainConfig_ex :
  wt spec_table spec_CatchainConfig ex_CatchainConfig /\
  match encode spec_table spec_CatchainConfig ex_CatchainConfig with
  | Ok (bits, refs) =>
      run_type impl_table 33 "CatchainConfig" [] (Cell (-1) (bits ++ [true; false]) (refs ++ [Cell (-1) [] []]))
      = Ok (ex_CatchainConfig, mkS [true; false] [Cell (-1) [] []])
  | Err _ => False
  end.
Proof. split; [wt_tac|vm_compute; reflexivity]. Qed.

(* ---- ValidatorDescr ---- *)
Theorem C16_ValidatorDescr : forall v tb tr bits refs fuel,
  wt spec_table spec_ValidatorDescr v -> encode spec_table spec_ValidatorDescr v = Ok (bits, refs) -> (92 <= fuel)%nat ->
  run_type impl_table fuel "ValidatorDescr" [] (Cell (-1) (bits ++ tb) (refs ++ tr)) = Ok (v, mkS tb tr).
Proof. exact (C16_generic "ValidatorDescr" spec_ValidatorDescr 92 eq_refl eq_refl). Qed.
Print Assumptions C16_ValidatorDescr.

Definition ex_ValidatorDescr : pv :=
  PObj "ValidatorDescr" [("adnl_addr"%string, PBytes [7%N; 14%N; 21%N; 28%N; 35%N; 42%N; 49%N; 56%N;
    63%N; 70%N; 77%N; 84%N; 91%N; 98%N; 105%N; 112%N; 119%N; 126%N; 133%N; 140%N; 147%N; 154%N; 161%N;
    168%N; 175%N; 182%N; 189%N; 196%N; 203%N; 210%N; 217%N; 224%N]); ("public_key"%string, PObj
    "SigPubKey" [("pubkey"%string, PBytes [7%N; 14%N; 21%N; 28%N; 35%N; 42%N; 49%N; 56%N; 63%N; 70%N;
    77%N; 84%N; 91%N; 98%N; 105%N; 112%N; 119%N; 126%N; 133%N; 140%N; 147%N; 154%N; 161%N; 168%N; 175%N;
    182%N; 189%N; 196%N; 203%N; 210%N; 217%N; 224%N])]); ("type_"%string, PStr "validator_addr");
    ("weight"%string, PInt 350686)].
Example C16_ValidatorDescr_ex :
  wt spec_table spec_ValidatorDescr ex_ValidatorDescr /\
  match encode spec_table spec_ValidatorDescr ex_ValidatorDescr with
  | Ok (bits, refs) =>
      run_type impl_table 92 "ValidatorDescr" [] (Cell (-1) (bits ++ [true; false]) (refs ++ [Cell (-1) [] []]))
      = Ok (ex_ValidatorDescr, mkS [true; false] [Cell (-1) [] []])
  | Err _ => False
  end.
Proof. split; [wt_tac|vm_compute; reflexivity]. Qed.

(* ---- TransactionOrdinary ---- *)
Theorem C16_TransactionOrdinary : forall v tb tr bits refs fuel,
  wt spec_table spec_TransactionOrdinary v -> encode spec_table spec_TransactionOrdinary v = Ok (bits, refs) -> (139 <= fuel)%nat ->
  run_type impl_table fuel "TransactionOrdinary" [] (Cell (-1) (bits ++ tb) (refs ++ tr)) = Ok (v, mkS tb tr).
Proof. exact (C16_generic "TransactionOrdinary" spec_TransactionOrdinary 139 eq_refl eq_refl). Qed.
Print Assumptions C16_TransactionOrdinary.

Definition ex_TransactionOrdinary : pv :=
  PObj "TransactionOrdinary" [("aborted"%string, PBool true); ("action"%string, PObj "TrActionPhase"
    [("action_list_hash"%string, PBytes [7%N; 14%N; 21%N; 28%N; 35%N; 42%N; 49%N; 56%N; 63%N; 70%N;
    77%N; 84%N; 91%N; 98%N; 105%N; 112%N; 119%N; 126%N; 133%N; 140%N; 147%N; 154%N; 161%N; 168%N; 175%N;
    182%N; 189%N; 196%N; 203%N; 210%N; 217%N; 224%N]); ("msgs_created"%string, PInt 65535);
    ("no_funds"%string, PBool true); ("result_arg"%string, PInt (-3)); ("result_code"%string, PInt
    (-3)); ("skipped_actions"%string, PInt 65535); ("spec_actions"%string, PInt 65535);
    ("status_change"%string, PObj "AccStatusChange" [("type_"%string, PStr "deleted")]);
    ("success"%string, PBool true); ("tot_actions"%string, PInt 65535); ("tot_msg_size"%string, PObj
    "StorageUsedShort" [("bits"%string, PInt 300); ("cells"%string, PInt 300)]);
    ("total_action_fees"%string, PInt 1000000007); ("total_fwd_fees"%string, PInt 1000000007);
    ("valid"%string, PBool true)]); ("bounce"%string, PObj "TrBouncePhase" [("fwd_fees"%string, PInt
    1000000007); ("msg_fees"%string, PInt 1000000007); ("msg_size"%string, PObj "StorageUsedShort"
    [("bits"%string, PInt 300); ("cells"%string, PInt 300)]); ("type_"%string, PStr "ok")]);
    ("compute_ph"%string, PObj "TrComputePhase" [("account_activated"%string, PBool true);
    ("exit_arg"%string, PInt (-3)); ("exit_code"%string, PInt (-3)); ("gas_credit"%string, PInt 300);
    ("gas_fees"%string, PInt 1000000007); ("gas_limit"%string, PInt 300); ("gas_used"%string, PInt 300);
    ("mode"%string, PInt (-3)); ("msg_state_used"%string, PBool true); ("success"%string, PBool true);
    ("type_"%string, PStr "vm"); ("vm_final_state_hash"%string, PBytes [7%N; 14%N; 21%N; 28%N; 35%N;
    42%N; 49%N; 56%N; 63%N; 70%N; 77%N; 84%N; 91%N; 98%N; 105%N; 112%N; 119%N; 126%N; 133%N; 140%N;
    147%N; 154%N; 161%N; 168%N; 175%N; 182%N; 189%N; 196%N; 203%N; 210%N; 217%N; 224%N]);
    ("vm_init_state_hash"%string, PBytes [7%N; 14%N; 21%N; 28%N; 35%N; 42%N; 49%N; 56%N; 63%N; 70%N;
    77%N; 84%N; 91%N; 98%N; 105%N; 112%N; 119%N; 126%N; 133%N; 140%N; 147%N; 154%N; 161%N; 168%N; 175%N;
    182%N; 189%N; 196%N; 203%N; 210%N; 217%N; 224%N]); ("vm_steps"%string, PInt 954413)]);
    ("credit_first"%string, PBool true); ("credit_ph"%string, PObj "TrCreditPhase" [("credit"%string,
    PObj "CurrencyCollection" [("grams"%string, PInt 1000000007); ("other"%string, PObj
    "ExtraCurrencyCollection" [("dict"%string, PDict [(3, PInt 300); (10, PInt 300); (11, PInt
    300)])])]); ("due_fees_collected"%string, PInt 1000000007)]); ("destroyed"%string, PBool true);
    ("storage_ph"%string, PObj "TrStoragePhase" [("status_change"%string, PObj "AccStatusChange"
    [("type_"%string, PStr "deleted")]); ("storage_fees_collected"%string, PInt 1000000007);
    ("storage_fees_due"%string, PInt 1000000007)]); ("type_"%string, PStr "ordinary")].
Example C16_TransactionOrdinary_ex :
  wt spec_table spec_TransactionOrdinary ex_TransactionOrdinary /\
  match encode spec_table spec_TransactionOrdinary ex_TransactionOrdinary with
  | Ok (bits, refs) =>
      run_type impl_table 139 "TransactionOrdinary" [] (Cell (-1) (bits ++ [true; false]) (refs ++ [Cell (-1) [] []]))
      = Ok (ex_TransactionOrdinary, mkS [true; false] [Cell (-1) [] []])
  | Err _ => False
  end.
Proof. split; [wt_tac|vm_compute; reflexivity]. Qed.

(* ---- TransactionStorage ---- *)
Theorem C16_TransactionStorage : forall v tb tr bits refs fuel,
  wt spec_table spec_TransactionStorage v -> encode spec_table spec_TransactionStorage v = Ok (bits, refs) -> (22 <= fuel)%nat ->
  run_type impl_table fuel "TransactionStorage" [] (Cell (-1) (bits ++ tb) (refs ++ tr)) = Ok (v, mkS tb tr).
Proof. exact (C16_generic "TransactionStorage" spec_TransactionStorage 22 eq_refl eq_refl). Qed.
Print Assumptions C16_TransactionStorage.

Definition ex_TransactionStorage : pv :=
  PObj "TransactionStorage" [("storage_ph"%string, PObj "TrStoragePhase" [("status_change"%string, PObj
    "AccStatusChange" [("type_"%string, PStr "deleted")]); ("storage_fees_collected"%string, PInt
    1000000007); ("storage_fees_due"%string, PInt 1000000007)]); ("type_"%string, PStr "storage")].
Example C16_TransactionStorage_ex :
  wt spec_table spec_TransactionStorage ex_TransactionStorage /\
  match encode spec_table spec_TransactionStorage ex_TransactionStorage with
  | Ok (bits, refs) =>
      run_type impl_table 22 "TransactionStorage" [] (Cell (-1) (bits ++ [true; false]) (refs ++ [Cell (-1) [] []]))
      = Ok (ex_TransactionStorage, mkS [true; false] [Cell (-1) [] []])
  | Err _ => False
  end.
Proof. split; [wt_tac|vm_compute; reflexivity]. Qed.

(* ---- TransactionTickTock ---- *)
Theorem C16_TransactionTickTock : forall v tb tr bits refs fuel,
  wt spec_table spec_TransactionTickTock v -> encode spec_table spec_TransactionTickTock v = Ok (bits, refs) -> (92 <= fuel)%nat ->
  run_type impl_table fuel "TransactionTickTock" [] (Cell (-1) (bits ++ tb) (refs ++ tr)) = Ok (v, mkS tb tr).
Proof. exact (C16_generic "TransactionTickTock" spec_TransactionTickTock 92 eq_refl eq_refl). Qed.
Print Assumptions C16_TransactionTickTock.

Definition ex_TransactionTickTock : pv :=
  PObj "TransactionTickTock" [("aborted"%string, PBool true); ("action"%string, PObj "TrActionPhase"
    [("action_list_hash"%string, PBytes [7%N; 14%N; 21%N; 28%N; 35%N; 42%N; 49%N; 56%N; 63%N; 70%N;
    77%N; 84%N; 91%N; 98%N; 105%N; 112%N; 119%N; 126%N; 133%N; 140%N; 147%N; 154%N; 161%N; 168%N; 175%N;
    182%N; 189%N; 196%N; 203%N; 210%N; 217%N; 224%N]); ("msgs_created"%string, PInt 65535);
    ("no_funds"%string, PBool true); ("result_arg"%string, PInt (-3)); ("result_code"%string, PInt
    (-3)); ("skipped_actions"%string, PInt 65535); ("spec_actions"%string, PInt 65535);
    ("status_change"%string, PObj "AccStatusChange" [("type_"%string, PStr "deleted")]);
    ("success"%string, PBool true); ("tot_actions"%string, PInt 65535); ("tot_msg_size"%string, PObj
    "StorageUsedShort" [("bits"%string, PInt 300); ("cells"%string, PInt 300)]);
    ("total_action_fees"%string, PInt 1000000007); ("total_fwd_fees"%string, PInt 1000000007);
    ("valid"%string, PBool true)]); ("compute_ph"%string, PObj "TrComputePhase"
    [("account_activated"%string, PBool true); ("exit_arg"%string, PInt (-3)); ("exit_code"%string, PInt
    (-3)); ("gas_credit"%string, PInt 300); ("gas_fees"%string, PInt 1000000007); ("gas_limit"%string,
    PInt 300); ("gas_used"%string, PInt 300); ("mode"%string, PInt (-3)); ("msg_state_used"%string,
    PBool true); ("success"%string, PBool true); ("type_"%string, PStr "vm");
    ("vm_final_state_hash"%string, PBytes [7%N; 14%N; 21%N; 28%N; 35%N; 42%N; 49%N; 56%N; 63%N; 70%N;
    77%N; 84%N; 91%N; 98%N; 105%N; 112%N; 119%N; 126%N; 133%N; 140%N; 147%N; 154%N; 161%N; 168%N; 175%N;
    182%N; 189%N; 196%N; 203%N; 210%N; 217%N; 224%N]); ("vm_init_state_hash"%string, PBytes [7%N; 14%N;
    21%N; 28%N; 35%N; 42%N; 49%N; 56%N; 63%N; 70%N; 77%N; 84%N; 91%N; 98%N; 105%N; 112%N; 119%N; 126%N;
    133%N; 140%N; 147%N; 154%N; 161%N; 168%N; 175%N; 182%N; 189%N; 196%N; 203%N; 210%N; 217%N; 224%N]);
    ("vm_steps"%string, PInt 954413)]); ("destroyed"%string, PBool true); ("is_tock"%string, PBool
    true); ("storage_ph"%string, PObj "TrStoragePhase" [("status_change"%string, PObj "AccStatusChange"
    [("type_"%string, PStr "deleted")]); ("storage_fees_collected"%string, PInt 1000000007);
    ("storage_fees_due"%string, PInt 1000000007)]); ("type_"%string, PStr "tick_tock")].
Example C16_TransactionTickTock_ex :
  wt spec_table spec_TransactionTickTock ex_TransactionTickTock /\
  match encode spec_table spec_TransactionTickTock ex_TransactionTickTock with
  | Ok (bits, refs) =>
      run_type impl_table 92 "TransactionTickTock" [] (Cell (-1) (bits ++ [true; false]) (refs ++ [Cell (-1) [] []]))
      = Ok (ex_TransactionTickTock, mkS [true; false] [Cell (-1) [] []])
  | Err _ => False
  end.
Proof. split; [wt_tac|vm_compute; reflexivity]. Qed.

(* ---- TransactionSplitPrepare ---- *)
Theorem C16_TransactionSplitPrepare : forall v tb tr bits refs fuel,
  wt spec_table spec_TransactionSplitPrepare v -> encode spec_table spec_TransactionSplitPrepare v = Ok (bits, refs) -> (102 <= fuel)%nat ->
  run_type impl_table fuel "TransactionSplitPrepare" [] (Cell (-1) (bits ++ tb) (refs ++ tr)) = Ok (v, mkS tb tr).
Proof. exact (C16_generic "TransactionSplitPrepare" spec_TransactionSplitPrepare 102 eq_refl eq_refl). Qed.
Print Assumptions C16_TransactionSplitPrepare.

Definition ex_TransactionSplitPrepare : pv :=
  PObj "TransactionSplitPrepare" [("aborted"%string, PBool true); ("action"%string, PObj "TrActionPhase"
    [("action_list_hash"%string, PBytes [7%N; 14%N; 21%N; 28%N; 35%N; 42%N; 49%N; 56%N; 63%N; 70%N;
    77%N; 84%N; 91%N; 98%N; 105%N; 112%N; 119%N; 126%N; 133%N; 140%N; 147%N; 154%N; 161%N; 168%N; 175%N;
    182%N; 189%N; 196%N; 203%N; 210%N; 217%N; 224%N]); ("msgs_created"%string, PInt 65535);
    ("no_funds"%string, PBool true); ("result_arg"%string, PInt (-3)); ("result_code"%string, PInt
    (-3)); ("skipped_actions"%string, PInt 65535); ("spec_actions"%string, PInt 65535);
    ("status_change"%string, PObj "AccStatusChange" [("type_"%string, PStr "deleted")]);
    ("success"%string, PBool true); ("tot_actions"%string, PInt 65535); ("tot_msg_size"%string, PObj
    "StorageUsedShort" [("bits"%string, PInt 300); ("cells"%string, PInt 300)]);
    ("total_action_fees"%string, PInt 1000000007); ("total_fwd_fees"%string, PInt 1000000007);
    ("valid"%string, PBool true)]); ("compute_ph"%string, PObj "TrComputePhase"
    [("account_activated"%string, PBool true); ("exit_arg"%string, PInt (-3)); ("exit_code"%string, PInt
    (-3)); ("gas_credit"%string, PInt 300); ("gas_fees"%string, PInt 1000000007); ("gas_limit"%string,
    PInt 300); ("gas_used"%string, PInt 300); ("mode"%string, PInt (-3)); ("msg_state_used"%string,
    PBool true); ("success"%string, PBool true); ("type_"%string, PStr "vm");
    ("vm_final_state_hash"%string, PBytes [7%N; 14%N; 21%N; 28%N; 35%N; 42%N; 49%N; 56%N; 63%N; 70%N;
    77%N; 84%N; 91%N; 98%N; 105%N; 112%N; 119%N; 126%N; 133%N; 140%N; 147%N; 154%N; 161%N; 168%N; 175%N;
    182%N; 189%N; 196%N; 203%N; 210%N; 217%N; 224%N]); ("vm_init_state_hash"%string, PBytes [7%N; 14%N;
    21%N; 28%N; 35%N; 42%N; 49%N; 56%N; 63%N; 70%N; 77%N; 84%N; 91%N; 98%N; 105%N; 112%N; 119%N; 126%N;
    133%N; 140%N; 147%N; 154%N; 161%N; 168%N; 175%N; 182%N; 189%N; 196%N; 203%N; 210%N; 217%N; 224%N]);
    ("vm_steps"%string, PInt 954413)]); ("destroyed"%string, PBool true); ("split_info"%string, PObj
    "SplitMergeInfo" [("acc_split_depth"%string, PInt 63); ("cur_shard_pfx_len"%string, PInt 63);
    ("sibling_addr"%string, PHex [7%N; 14%N; 21%N; 28%N; 35%N; 42%N; 49%N; 56%N; 63%N; 70%N; 77%N; 84%N;
    91%N; 98%N; 105%N; 112%N; 119%N; 126%N; 133%N; 140%N; 147%N; 154%N; 161%N; 168%N; 175%N; 182%N;
    189%N; 196%N; 203%N; 210%N; 217%N; 224%N]); ("this_addr"%string, PHex [7%N; 14%N; 21%N; 28%N; 35%N;
    42%N; 49%N; 56%N; 63%N; 70%N; 77%N; 84%N; 91%N; 98%N; 105%N; 112%N; 119%N; 126%N; 133%N; 140%N;
    147%N; 154%N; 161%N; 168%N; 175%N; 182%N; 189%N; 196%N; 203%N; 210%N; 217%N; 224%N])]);
    ("storage_ph"%string, PObj "TrStoragePhase" [("status_change"%string, PObj "AccStatusChange"
    [("type_"%string, PStr "deleted")]); ("storage_fees_collected"%string, PInt 1000000007);
    ("storage_fees_due"%string, PInt 1000000007)]); ("type_"%string, PStr "split_prepare")].
Example C16_TransactionSplitPrepare_ex :
  wt spec_table spec_TransactionSplitPrepare ex_TransactionSplitPrepare /\
  match encode spec_table spec_TransactionSplitPrepare ex_TransactionSplitPrepare with
  | Ok (bits, refs) =>
      run_type impl_table 102 "TransactionSplitPrepare" [] (Cell (-1) (bits ++ [true; false]) (refs ++ [Cell (-1) [] []]))
      = Ok (ex_TransactionSplitPrepare, mkS [true; false] [Cell (-1) [] []])
  | Err _ => False
  end.
Proof. split; [wt_tac|vm_compute; reflexivity]. Qed.

(* ---- TransactionMergePrepare ---- *)
Theorem C16_TransactionMergePrepare : forall v tb tr bits refs fuel,
  wt spec_table spec_TransactionMergePrepare v -> encode spec_table spec_TransactionMergePrepare v = Ok (bits, refs) -> (32 <= fuel)%nat ->
  run_type impl_table fuel "TransactionMergePrepare" [] (Cell (-1) (bits ++ tb) (refs ++ tr)) = Ok (v, mkS tb tr).
Proof. exact (C16_generic "TransactionMergePrepare" spec_TransactionMergePrepare 32 eq_refl eq_refl). Qed.
Print Assumptions C16_TransactionMergePrepare.

Definition ex_TransactionMergePrepare : pv :=
  PObj "TransactionMergePrepare" [("aborted"%string, PBool true); ("split_info"%string, PObj
    "SplitMergeInfo" [("acc_split_depth"%string, PInt 63); ("cur_shard_pfx_len"%string, PInt 63);
    ("sibling_addr"%string, PHex [7%N; 14%N; 21%N; 28%N; 35%N; 42%N; 49%N; 56%N; 63%N; 70%N; 77%N; 84%N;
    91%N; 98%N; 105%N; 112%N; 119%N; 126%N; 133%N; 140%N; 147%N; 154%N; 161%N; 168%N; 175%N; 182%N;
    189%N; 196%N; 203%N; 210%N; 217%N; 224%N]); ("this_addr"%string, PHex [7%N; 14%N; 21%N; 28%N; 35%N;
    42%N; 49%N; 56%N; 63%N; 70%N; 77%N; 84%N; 91%N; 98%N; 105%N; 112%N; 119%N; 126%N; 133%N; 140%N;
    147%N; 154%N; 161%N; 168%N; 175%N; 182%N; 189%N; 196%N; 203%N; 210%N; 217%N; 224%N])]);
    ("storage_ph"%string, PObj "TrStoragePhase" [("status_change"%string, PObj "AccStatusChange"
    [("type_"%string, PStr "deleted")]); ("storage_fees_collected"%string, PInt 1000000007);
    ("storage_fees_due"%string, PInt 1000000007)]); ("type_"%string, PStr "merge_prepare")].
Example C16_TransactionMergePrepare_ex :
  wt spec_table spec_TransactionMergePrepare ex_TransactionMergePrepare /\
  match encode spec_table spec_TransactionMergePrepare ex_TransactionMergePrepare with
  | Ok (bits, refs) =>
      run_type impl_table 32 "TransactionMergePrepare" [] (Cell (-1) (bits ++ [true; false]) (refs ++ [Cell (-1) [] []]))
      = Ok (ex_TransactionMergePrepare, mkS [true; false] [Cell (-1) [] []])
  | Err _ => False
  end.
Proof. split; [wt_tac|vm_compute; reflexivity]. Qed.

(* ---- AccountState ---- *)
Theorem C16_AccountState : forall v tb tr bits refs fuel,
  wt spec_table spec_AccountState v -> encode spec_table spec_AccountState v = Ok (bits, refs) -> (34 <= fuel)%nat ->
  run_type impl_table fuel "AccountState" [] (Cell (-1) (bits ++ tb) (refs ++ tr)) = Ok (v, mkS tb tr).
Proof. exact (C16_generic "AccountState" spec_AccountState 34 eq_refl eq_refl). Qed.
Print Assumptions C16_AccountState.

Definition ex_AccountState : pv :=
  PObj "AccountState" [("state_hash"%string, PHex [7%N; 14%N; 21%N; 28%N; 35%N; 42%N; 49%N; 56%N; 63%N;
    70%N; 77%N; 84%N; 91%N; 98%N; 105%N; 112%N; 119%N; 126%N; 133%N; 140%N; 147%N; 154%N; 161%N; 168%N;
    175%N; 182%N; 189%N; 196%N; 203%N; 210%N; 217%N; 224%N]); ("type_"%string, PStr "account_frozen")].
Example C16_AccountState_ex :
  wt spec_table spec_AccountState ex_AccountState /\
  match encode spec_table spec_AccountState ex_AccountState with
  | Ok (bits, refs) =>
      run_type impl_table 34 "AccountState" [] (Cell (-1) (bits ++ [true; false]) (refs ++ [Cell (-1) [] []]))
      = Ok (ex_AccountState, mkS [true; false] [Cell (-1) [] []])
  | Err _ => False
  end.
Proof. split; [wt_tac|vm_compute; reflexivity]. Qed.

(* ---- AccountStorage ---- *)
Theorem C16_AccountStorage : forall v tb tr bits refs fuel,
  wt spec_table spec_AccountStorage v -> encode spec_table spec_AccountStorage v = Ok (bits, refs) -> (55 <= fuel)%nat ->
  run_type impl_table fuel "AccountStorage" [] (Cell (-1) (bits ++ tb) (refs ++ tr)) = Ok (v, mkS tb tr).
Proof. exact (C16_generic "AccountStorage" spec_AccountStorage 55 eq_refl eq_refl). Qed.
Print Assumptions C16_AccountStorage.

Definition ex_AccountStorage : pv :=
  PObj "AccountStorage" [("balance"%string, PObj "CurrencyCollection" [("grams"%string, PInt
    1000000007); ("other"%string, PObj "ExtraCurrencyCollection" [("dict"%string, PDict [(3, PInt 300);
    (10, PInt 300); (11, PInt 300)])])]); ("last_trans_lt"%string, PInt 350686); ("state"%string, PObj
    "AccountState" [("state_hash"%string, PHex [7%N; 14%N; 21%N; 28%N; 35%N; 42%N; 49%N; 56%N; 63%N;
    70%N; 77%N; 84%N; 91%N; 98%N; 105%N; 112%N; 119%N; 126%N; 133%N; 140%N; 147%N; 154%N; 161%N; 168%N;
    175%N; 182%N; 189%N; 196%N; 203%N; 210%N; 217%N; 224%N]); ("type_"%string, PStr "account_frozen")])].
Example C16_AccountStorage_ex :
  wt spec_table spec_AccountStorage ex_AccountStorage /\
  match encode spec_table spec_AccountStorage ex_AccountStorage with
  | Ok (bits, refs) =>
      run_type impl_table 55 "AccountStorage" [] (Cell (-1) (bits ++ [true; false]) (refs ++ [Cell (-1) [] []]))
      = Ok (ex_AccountStorage, mkS [true; false] [Cell (-1) [] []])
  | Err _ => False
  end.
Proof. split; [wt_tac|vm_compute; reflexivity]. Qed.

(* ---- Account ---- *)
Theorem C16_Account : forall v tb tr bits refs fuel,
  wt spec_table spec_Account v -> encode spec_table spec_Account v = Ok (bits, refs) -> (80 <= fuel)%nat ->
  run_type impl_table fuel "Account" [] (Cell (-1) (bits ++ tb) (refs ++ tr)) = Ok (v, mkS tb tr).
Proof. exact (C16_generic "Account" spec_Account 80 eq_refl eq_refl). Qed.
Print Assumptions C16_Account.

Definition ex_Account : pv :=
  PObj "Account" [("addr"%string, PAddr (AddrStd (Some (3, 5)) (-1) [7%N; 14%N; 21%N; 28%N; 35%N; 42%N;
    49%N; 56%N; 63%N; 70%N; 77%N; 84%N; 91%N; 98%N; 105%N; 112%N; 119%N; 126%N; 133%N; 140%N; 147%N;
    154%N; 161%N; 168%N; 175%N; 182%N; 189%N; 196%N; 203%N; 210%N; 217%N; 224%N])); ("storage"%string,
    PObj "AccountStorage" [("balance"%string, PObj "CurrencyCollection" [("grams"%string, PInt
    1000000007); ("other"%string, PObj "ExtraCurrencyCollection" [("dict"%string, PDict [(3, PInt 300);
    (10, PInt 300); (11, PInt 300)])])]); ("last_trans_lt"%string, PInt 350686); ("state"%string, PObj
    "AccountState" [("state_hash"%string, PHex [7%N; 14%N; 21%N; 28%N; 35%N; 42%N; 49%N; 56%N; 63%N;
    70%N; 77%N; 84%N; 91%N; 98%N; 105%N; 112%N; 119%N; 126%N; 133%N; 140%N; 147%N; 154%N; 161%N; 168%N;
    175%N; 182%N; 189%N; 196%N; 203%N; 210%N; 217%N; 224%N]); ("type_"%string, PStr
    "account_frozen")])]); ("storage_stat"%string, PObj "StorageInfo" [("due_payment"%string, PInt
    1000000007); ("last_paid"%string, PInt 954413); ("used"%string, PObj "StorageUsed" [("bits"%string,
    PInt 300); ("cells"%string, PInt 300); ("public_cells"%string, PInt 300)])])].
Example C16_Account_ex :
  wt spec_table spec_Account ex_Account /\
  match encode spec_table spec_Account ex_Account with
  | Ok (bits, refs) =>
      run_type impl_table 80 "Account" [] (Cell (-1) (bits ++ [true; false]) (refs ++ [Cell (-1) [] []]))
      = Ok (ex_Account, mkS [true; false] [Cell (-1) [] []])
  | Err _ => False
  end.
Proof. split; [wt_tac|vm_compute; reflexivity]. Qed.

(* ---- DepthBalanceInfo ---- *)
Theorem C16_DepthBalanceInfo : forall v tb tr bits refs fuel,
  wt spec_table spec_DepthBalanceInfo v -> encode spec_table spec_DepthBalanceInfo v = Ok (bits, refs) -> (20 <= fuel)%nat ->
  run_type impl_table fuel "DepthBalanceInfo" [] (Cell (-1) (bits ++ tb) (refs ++ tr)) = Ok (v, mkS tb tr).
Proof. exact (C16_generic "DepthBalanceInfo" spec_DepthBalanceInfo 20 eq_refl eq_refl). Qed.
Print Assumptions C16_DepthBalanceInfo.

Definition ex_DepthBalanceInfo : pv :=
  PObj "DepthBalanceInfo" [("balance"%string, PObj "CurrencyCollection" [("grams"%string, PInt
    1000000007); ("other"%string, PObj "ExtraCurrencyCollection" [("dict"%string, PDict [(3, PInt 300);
    (10, PInt 300); (11, PInt 300)])])]); ("split_depth"%string, PInt 30)].
Example C16_DepthBalanceInfo_ex :
  wt spec_table spec_DepthBalanceInfo ex_DepthBalanceInfo /\
  match encode spec_table spec_DepthBalanceInfo ex_DepthBalanceInfo with
  | Ok (bits, refs) =>
      run_type impl_table 20 "DepthBalanceInfo" [] (Cell (-1) (bits ++ [true; false]) (refs ++ [Cell (-1) [] []]))
      = Ok (ex_DepthBalanceInfo, mkS [true; false] [Cell (-1) [] []])
  | Err _ => False
  end.
Proof. split; [wt_tac|vm_compute; reflexivity]. Qed.

(* ---- ImportFees ---- *)
Theorem C16_ImportFees : forall v tb tr bits refs fuel,
  wt spec_table spec_ImportFees v -> encode spec_table spec_ImportFees v = Ok (bits, refs) -> (20 <= fuel)%nat ->
  run_type impl_table fuel "ImportFees" [] (Cell (-1) (bits ++ tb) (refs ++ tr)) = Ok (v, mkS tb tr).
Proof. exact (C16_generic "ImportFees" spec_ImportFees 20 eq_refl eq_refl). Qed.
Print Assumptions C16_ImportFees.

Definition ex_ImportFees : pv :=
  PObj "ImportFees" [("fees_collected"%string, PInt 1000000007); ("value_imported"%string, PObj
    "CurrencyCollection" [("grams"%string, PInt 1000000007); ("other"%string, PObj
    "ExtraCurrencyCollection" [("dict"%string, PDict [(3, PInt 300); (10, PInt 300); (11, PInt
    300)])])])].
Example C16_ImportFees_ex :
  wt spec_table spec_ImportFees ex_ImportFees /\
  match encode spec_table spec_ImportFees ex_ImportFees with
  | Ok (bits, refs) =>
      run_type impl_table 20 "ImportFees" [] (Cell (-1) (bits ++ [true; false]) (refs ++ [Cell (-1) [] []]))
      = Ok (ex_ImportFees, mkS [true; false] [Cell (-1) [] []])
  | Err _ => False
  end.
Proof. split; [wt_tac|vm_compute; reflexivity]. Qed.

(* ---- LibRef ---- *)
Theorem C16_LibRef : forall v tb tr bits refs fuel,
  wt spec_table spec_LibRef v -> encode spec_table spec_LibRef v = Ok (bits, refs) -> (7 <= fuel)%nat ->
  run_type impl_table fuel "LibRef" [] (Cell (-1) (bits ++ tb) (refs ++ tr)) = Ok (v, mkS tb tr).
Proof. exact (C16_generic "LibRef" spec_LibRef 7 eq_refl eq_refl). Qed.
Print Assumptions C16_LibRef.

Definition ex_LibRef : pv :=
  PObj "LibRef" [("lib_hash"%string, PNone); ("library"%string, PCell (Cell (-1) [true; false; true]
    [])); ("type_"%string, PStr "libref_ref")].
Example C16_LibRef_ex :
  wt spec_table spec_LibRef ex_LibRef /\
  match encode spec_table spec_LibRef ex_LibRef with
  | Ok (bits, refs) =>
      run_type impl_table 7 "LibRef" [] (Cell (-1) (bits ++ [true; false]) (refs ++ [Cell (-1) [] []]))
      = Ok (ex_LibRef, mkS [true; false] [Cell (-1) [] []])
  | Err _ => False
  end.
Proof. split; [wt_tac|vm_compute; reflexivity]. Qed.

(* ---- ValidatorInfo ---- *)
Theorem C16_ValidatorInfo : forall v tb tr bits refs fuel,
  wt spec_table spec_ValidatorInfo v -> encode spec_table spec_ValidatorInfo v = Ok (bits, refs) -> (7 <= fuel)%nat ->
  run_type impl_table fuel "ValidatorInfo" [] (Cell (-1) (bits ++ tb) (refs ++ tr)) = Ok (v, mkS tb tr).
Proof. exact (C16_generic "ValidatorInfo" spec_ValidatorInfo 7 eq_refl eq_refl). Qed.
Print Assumptions C16_ValidatorInfo.

Definition ex_ValidatorInfo : pv :=
  PObj "ValidatorInfo" [("catchain_seqno"%string, PInt 954413); ("nx_cc_updated"%string, PBool true);
    ("validator_list_hash_short"%string, PInt 954413)].
Example C16_ValidatorInfo_ex :
  wt spec_table spec_ValidatorInfo ex_ValidatorInfo /\
  match encode spec_table spec_ValidatorInfo ex_ValidatorInfo with
  | Ok (bits, refs) =>
      run_type impl_table 7 "ValidatorInfo" [] (Cell (-1) (bits ++ [true; false]) (refs ++ [Cell (-1) [] []]))
      = Ok (ex_ValidatorInfo, mkS [true; false] [Cell (-1) [] []])
  | Err _ => False
  end.
Proof. split; [wt_tac|vm_compute; reflexivity]. Qed.

(* ---- KeyMaxLt ---- *)
Theorem C16_KeyMaxLt : forall v tb tr bits refs fuel,
  wt spec_table spec_KeyMaxLt v -> encode spec_table spec_KeyMaxLt v = Ok (bits, refs) -> (6 <= fuel)%nat ->
  run_type impl_table fuel "KeyMaxLt" [] (Cell (-1) (bits ++ tb) (refs ++ tr)) = Ok (v, mkS tb tr).
Proof. exact (C16_generic "KeyMaxLt" spec_KeyMaxLt 6 eq_refl eq_refl). Qed.
Print Assumptions C16_KeyMaxLt.

Definition ex_KeyMaxLt : pv :=
  PObj "KeyMaxLt" [("key"%string, PBool true); ("max_end_lt"%string, PInt 350686)].
Example C16_KeyMaxLt_ex :
  wt spec_table spec_KeyMaxLt ex_KeyMaxLt /\
  match encode spec_table spec_KeyMaxLt ex_KeyMaxLt with
  | Ok (bits, refs) =>
      run_type impl_table 6 "KeyMaxLt" [] (Cell (-1) (bits ++ [true; false]) (refs ++ [Cell (-1) [] []]))
      = Ok (ex_KeyMaxLt, mkS [true; false] [Cell (-1) [] []])
  | Err _ => False
  end.
Proof. split; [wt_tac|vm_compute; reflexivity]. Qed.

(* ---- KeyExtBlkRef ---- *)
Theorem C16_KeyExtBlkRef : forall v tb tr bits refs fuel,
  wt spec_table spec_KeyExtBlkRef v -> encode spec_table spec_KeyExtBlkRef v = Ok (bits, refs) -> (14 <= fuel)%nat ->
  run_type impl_table fuel "KeyExtBlkRef" [] (Cell (-1) (bits ++ tb) (refs ++ tr)) = Ok (v, mkS tb tr).
Proof. exact (C16_generic "KeyExtBlkRef" spec_KeyExtBlkRef 14 eq_refl eq_refl). Qed.
Print Assumptions C16_KeyExtBlkRef.

Definition ex_KeyExtBlkRef : pv :=
  PObj "KeyExtBlkRef" [("blk_ref"%string, PObj "ExtBlkRef" [("end_lt"%string, PInt 350686);
    ("file_hash"%string, PBytes [7%N; 14%N; 21%N; 28%N; 35%N; 42%N; 49%N; 56%N; 63%N; 70%N; 77%N; 84%N;
    91%N; 98%N; 105%N; 112%N; 119%N; 126%N; 133%N; 140%N; 147%N; 154%N; 161%N; 168%N; 175%N; 182%N;
    189%N; 196%N; 203%N; 210%N; 217%N; 224%N]); ("root_hash"%string, PBytes [7%N; 14%N; 21%N; 28%N;
    35%N; 42%N; 49%N; 56%N; 63%N; 70%N; 77%N; 84%N; 91%N; 98%N; 105%N; 112%N; 119%N; 126%N; 133%N;
    140%N; 147%N; 154%N; 161%N; 168%N; 175%N; 182%N; 189%N; 196%N; 203%N; 210%N; 217%N; 224%N]);
    ("seqno"%string, PInt 954413)]); ("key"%string, PBool true)].
Example C16_KeyExtBlkRef_ex :
  wt spec_table spec_KeyExtBlkRef ex_KeyExtBlkRef /\
  match encode spec_table spec_KeyExtBlkRef ex_KeyExtBlkRef with
  | Ok (bits, refs) =>
      run_type impl_table 14 "KeyExtBlkRef" [] (Cell (-1) (bits ++ [true; false]) (refs ++ [Cell (-1) [] []]))
      = Ok (ex_KeyExtBlkRef, mkS [true; false] [Cell (-1) [] []])
  | Err _ => False
  end.
Proof. split; [wt_tac|vm_compute; reflexivity]. Qed.

(* ---- Counters ---- *)
Theorem C16_Counters : forall v tb tr bits refs fuel,
  wt spec_table spec_Counters v -> encode spec_table spec_Counters v = Ok (bits, refs) -> (8 <= fuel)%nat ->
  run_type impl_table fuel "Counters" [] (Cell (-1) (bits ++ tb) (refs ++ tr)) = Ok (v, mkS tb tr).
Proof. exact (C16_generic "Counters" spec_Counters 8 eq_refl eq_refl). Qed.
Print Assumptions C16_Counters.

Definition ex_Counters : pv :=
  PObj "Counters" [("cnt2048"%string, PInt 350686); ("cnt65536"%string, PInt 350686);
    ("last_updated"%string, PInt 954413); ("total"%string, PInt 350686)].
Example C16_Counters_ex :
  wt spec_table spec_Counters ex_Counters /\
  match encode spec_table spec_Counters ex_Counters with
  | Ok (bits, refs) =>
      run_type impl_table 8 "Counters" [] (Cell (-1) (bits ++ [true; false]) (refs ++ [Cell (-1) [] []]))
      = Ok (ex_Counters, mkS [true; false] [Cell (-1) [] []])
  | Err _ => False
  end.
Proof. split; [wt_tac|vm_compute; reflexivity]. Qed.

(* ---- CreatorStats ---- *)
Theorem C16_CreatorStats : forall v tb tr bits refs fuel,
  wt spec_table spec_CreatorStats v -> encode spec_table spec_CreatorStats v = Ok (bits, refs) -> (30 <= fuel)%nat ->
  run_type impl_table fuel "CreatorStats" [] (Cell (-1) (bits ++ tb) (refs ++ tr)) = Ok (v, mkS tb tr).
Proof. exact (C16_generic "CreatorStats" spec_CreatorStats 30 eq_refl eq_refl). Qed.
Print Assumptions C16_CreatorStats.

Definition ex_CreatorStats : pv :=
  PObj "CreatorStats" [("mc_blocks"%string, PObj "Counters" [("cnt2048"%string, PInt 350686);
    ("cnt65536"%string, PInt 350686); ("last_updated"%string, PInt 954413); ("total"%string, PInt
    350686)]); ("shard_blocks"%string, PObj "Counters" [("cnt2048"%string, PInt 350686);
    ("cnt65536"%string, PInt 350686); ("last_updated"%string, PInt 954413); ("total"%string, PInt
    350686)])].
Example C16_CreatorStats_ex :
  wt spec_table spec_CreatorStats ex_CreatorStats /\
  match encode spec_table spec_CreatorStats ex_CreatorStats with
  | Ok (bits, refs) =>
      run_type impl_table 30 "CreatorStats" [] (Cell (-1) (bits ++ [true; false]) (refs ++ [Cell (-1) [] []]))
      = Ok (ex_CreatorStats, mkS [true; false] [Cell (-1) [] []])
  | Err _ => False
  end.
Proof. split; [wt_tac|vm_compute; reflexivity]. Qed.

(* ---- ConfigParam6 ---- *)
Theorem C16_ConfigParam6 : forall v tb tr bits refs fuel,
  wt spec_table spec_ConfigParam6 v -> encode spec_table spec_ConfigParam6 v = Ok (bits, refs) -> (6 <= fuel)%nat ->
  run_type impl_table fuel "ConfigParam6" [] (Cell (-1) (bits ++ tb) (refs ++ tr)) = Ok (v, mkS tb tr).
Proof. exact (C16_generic "ConfigParam6" spec_ConfigParam6 6 eq_refl eq_refl). Qed.
Print Assumptions C16_ConfigParam6.

Definition ex_ConfigParam6 : pv :=
  PObj "ConfigParam6" [("mint_add_price"%string, PInt 1000000007); ("mint_new_price"%string, PInt
    1000000007)].
Example C16_ConfigParam6_ex :
  wt spec_table spec_ConfigParam6 ex_ConfigParam6 /\
  match encode spec_table spec_ConfigParam6 ex_ConfigParam6 with
  | Ok (bits, refs) =>
      run_type impl_table 6 "ConfigParam6" [] (Cell (-1) (bits ++ [true; false]) (refs ++ [Cell (-1) [] []]))
      = Ok (ex_ConfigParam6, mkS [true; false] [Cell (-1) [] []])
  | Err _ => False
  end.
Proof. split; [wt_tac|vm_compute; reflexivity]. Qed.

(* ---- ConfigParam7 ---- *)
Theorem C16_ConfigParam7 : forall v tb tr bits refs fuel,
  wt spec_table spec_ConfigParam7 v -> encode spec_table spec_ConfigParam7 v = Ok (bits, refs) -> (13 <= fuel)%nat ->
  run_type impl_table fuel "ConfigParam7" [] (Cell (-1) (bits ++ tb) (refs ++ tr)) = Ok (v, mkS tb tr).
Proof. exact (C16_generic "ConfigParam7" spec_ConfigParam7 13 eq_refl eq_refl). Qed.
Print Assumptions C16_ConfigParam7.

Definition ex_ConfigParam7 : pv :=
  PObj "ConfigParam7" [("to_mint"%string, PObj "ExtraCurrencyCollection" [("dict"%string, PDict [(3,
    PInt 300); (10, PInt 300); (11, PInt 300)])])].
Example C16_ConfigParam7_ex :
  wt spec_table spec_ConfigParam7 ex_ConfigParam7 /\
  match encode spec_table spec_ConfigParam7 ex_ConfigParam7 with
  | Ok (bits, refs) =>
      run_type impl_table 13 "ConfigParam7" [] (Cell (-1) (bits ++ [true; false]) (refs ++ [Cell (-1) [] []]))
      = Ok (ex_ConfigParam7, mkS [true; false] [Cell (-1) [] []])
  | Err _ => False
  end.
Proof. split; [wt_tac|vm_compute; reflexivity]. Qed.

(* ---- ConfigProposalSetup ---- *)
Theorem C16_ConfigProposalSetup : forall v tb tr bits refs fuel,
  wt spec_table spec_ConfigProposalSetup v -> encode spec_table spec_ConfigProposalSetup v = Ok (bits, refs) -> (28 <= fuel)%nat ->
  run_type impl_table fuel "ConfigProposalSetup" [] (Cell (-1) (bits ++ tb) (refs ++ tr)) = Ok (v, mkS tb tr).
Proof. exact (C16_generic "ConfigProposalSetup" spec_ConfigProposalSetup 28 eq_refl eq_refl). Qed.
Print Assumptions C16_ConfigProposalSetup.

Definition ex_ConfigProposalSetup : pv :=
  PObj "ConfigProposalSetup" [("bit_price"%string, PInt 954413); ("cell_price"%string, PInt 954413);
    ("max_losses"%string, PInt 255); ("max_store_sec"%string, PInt 954413); ("max_tot_rounds"%string,
    PInt 255); ("min_store_sec"%string, PInt 954413); ("min_tot_rounds"%string, PInt 255);
    ("min_wins"%string, PInt 255)].
Example C16_ConfigProposalSetup_ex :
  wt spec_table spec_ConfigProposalSetup ex_ConfigProposalSetup /\
  match encode spec_table spec_ConfigProposalSetup ex_ConfigProposalSetup with
  | Ok (bits, refs) =>
      run_type impl_table 28 "ConfigProposalSetup" [] (Cell (-1) (bits ++ [true; false]) (refs ++ [Cell (-1) [] []]))
      = Ok (ex_ConfigProposalSetup, mkS [true; false] [Cell (-1) [] []])
  | Err _ => False
  end.
Proof. split; [wt_tac|vm_compute; reflexivity]. Qed.

(* ---- ConfigVotingSetup ---- *)
Theorem C16_ConfigVotingSetup : forall v tb tr bits refs fuel,
  wt spec_table spec_ConfigVotingSetup v -> encode spec_table spec_ConfigVotingSetup v = Ok (bits, refs) -> (80 <= fuel)%nat ->
  run_type impl_table fuel "ConfigVotingSetup" [] (Cell (-1) (bits ++ tb) (refs ++ tr)) = Ok (v, mkS tb tr).
Proof. exact (C16_generic "ConfigVotingSetup" spec_ConfigVotingSetup 80 eq_refl eq_refl). Qed.
Print Assumptions C16_ConfigVotingSetup.

Definition ex_ConfigVotingSetup : pv :=
  PObj "ConfigVotingSetup" [("critical_params"%string, PObj "ConfigProposalSetup" [("bit_price"%string,
    PInt 954413); ("cell_price"%string, PInt 954413); ("max_losses"%string, PInt 255);
    ("max_store_sec"%string, PInt 954413); ("max_tot_rounds"%string, PInt 255); ("min_store_sec"%string,
    PInt 954413); ("min_tot_rounds"%string, PInt 255); ("min_wins"%string, PInt 255)]);
    ("normal_params"%string, PObj "ConfigProposalSetup" [("bit_price"%string, PInt 954413);
    ("cell_price"%string, PInt 954413); ("max_losses"%string, PInt 255); ("max_store_sec"%string, PInt
    954413); ("max_tot_rounds"%string, PInt 255); ("min_store_sec"%string, PInt 954413);
    ("min_tot_rounds"%string, PInt 255); ("min_wins"%string, PInt 255)])].
Example C16_ConfigVotingSetup_ex :
  wt spec_table spec_ConfigVotingSetup ex_ConfigVotingSetup /\
  match encode spec_table spec_ConfigVotingSetup ex_ConfigVotingSetup with
  | Ok (bits, refs) =>
      run_type impl_table 80 "ConfigVotingSetup" [] (Cell (-1) (bits ++ [true; false]) (refs ++ [Cell (-1) [] []]))
      = Ok (ex_ConfigVotingSetup, mkS [true; false] [Cell (-1) [] []])
  | Err _ => False
  end.
Proof. split; [wt_tac|vm_compute; reflexivity]. Qed.

(* ---- WcSplitMergeTimings ---- *)
Theorem C16_WcSplitMergeTimings : forall v tb tr bits refs fuel,
  wt spec_table spec_WcSplitMergeTimings v -> encode spec_table spec_WcSplitMergeTimings v = Ok (bits, refs) -> (16 <= fuel)%nat ->
  run_type impl_table fuel "WcSplitMergeTimings" [] (Cell (-1) (bits ++ tb) (refs ++ tr)) = Ok (v, mkS tb tr).
Proof. exact (C16_generic "WcSplitMergeTimings" spec_WcSplitMergeTimings 16 eq_refl eq_refl). Qed.
Print Assumptions C16_WcSplitMergeTimings.

Definition ex_WcSplitMergeTimings : pv :=
  PObj "WcSplitMergeTimings" [("max_split_merge_delay"%string, PInt 954413);
    ("min_split_merge_interval"%string, PInt 954413); ("split_merge_delay"%string, PInt 954413);
    ("split_merge_interval"%string, PInt 954413)].
Example C16_WcSplitMergeTimings_ex :
  wt spec_table spec_WcSplitMergeTimings ex_WcSplitMergeTimings /\
  match encode spec_table spec_WcSplitMergeTimings ex_WcSplitMergeTimings with
  | Ok (bits, refs) =>
      run_type impl_table 16 "WcSplitMergeTimings" [] (Cell (-1) (bits ++ [true; false]) (refs ++ [Cell (-1) [] []]))
      = Ok (ex_WcSplitMergeTimings, mkS [true; false] [Cell (-1) [] []])
  | Err _ => False
  end.
Proof. split; [wt_tac|vm_compute; reflexivity]. Qed.

(* ---- ComplaintPricing ---- *)
Theorem C16_ComplaintPricing : forall v tb tr bits refs fuel,
  wt spec_table spec_ComplaintPricing v -> encode spec_table spec_ComplaintPricing v = Ok (bits, refs) -> (23 <= fuel)%nat ->
  run_type impl_table fuel "ComplaintPricing" [] (Cell (-1) (bits ++ tb) (refs ++ tr)) = Ok (v, mkS tb tr).
Proof. exact (C16_generic "ComplaintPricing" spec_ComplaintPricing 23 eq_refl eq_refl). Qed.
Print Assumptions C16_ComplaintPricing.

Definition ex_ComplaintPricing : pv :=
  PObj "ComplaintPricing" [("bit_price"%string, PInt 1000000007); ("cell_price"%string, PInt
    1000000007); ("deposit"%string, PInt 1000000007)].
Example C16_ComplaintPricing_ex :
  wt spec_table spec_ComplaintPricing ex_ComplaintPricing /\
  match encode spec_table spec_ComplaintPricing ex_ComplaintPricing with
  | Ok (bits, refs) =>
      run_type impl_table 23 "ComplaintPricing" [] (Cell (-1) (bits ++ [true; false]) (refs ++ [Cell (-1) [] []]))
      = Ok (ex_ComplaintPricing, mkS [true; false] [Cell (-1) [] []])
  | Err _ => False
  end.
Proof. split; [wt_tac|vm_compute; reflexivity]. Qed.

(* ---- BlockCreateFees ---- *)
Theorem C16_BlockCreateFees : forall v tb tr bits refs fuel,
  wt spec_table spec_BlockCreateFees v -> encode spec_table spec_BlockCreateFees v = Ok (bits, refs) -> (22 <= fuel)%nat ->
  run_type impl_table fuel "BlockCreateFees" [] (Cell (-1) (bits ++ tb) (refs ++ tr)) = Ok (v, mkS tb tr).
Proof. exact (C16_generic "BlockCreateFees" spec_BlockCreateFees 22 eq_refl eq_refl). Qed.
Print Assumptions C16_BlockCreateFees.

Definition ex_BlockCreateFees : pv :=
  PObj "BlockCreateFees" [("basechain_block_fee"%string, PInt 1000000007);
    ("masterchain_block_fee"%string, PInt 1000000007)].
Example C16_BlockCreateFees_ex :
  wt spec_table spec_BlockCreateFees ex_BlockCreateFees /\
  match encode spec_table spec_BlockCreateFees ex_BlockCreateFees with
  | Ok (bits, refs) =>
      run_type impl_table 22 "BlockCreateFees" [] (Cell (-1) (bits ++ [true; false]) (refs ++ [Cell (-1) [] []]))
      = Ok (ex_BlockCreateFees, mkS [true; false] [Cell (-1) [] []])
  | Err _ => False
  end.
Proof. split; [wt_tac|vm_compute; reflexivity]. Qed.

(* ---- ConfigParam15 ---- *)
Theorem C16_ConfigParam15 : forall v tb tr bits refs fuel,
  wt spec_table spec_ConfigParam15 v -> encode spec_table spec_ConfigParam15 v = Ok (bits, refs) -> (8 <= fuel)%nat ->
  run_type impl_table fuel "ConfigParam15" [] (Cell (-1) (bits ++ tb) (refs ++ tr)) = Ok (v, mkS tb tr).
Proof. exact (C16_generic "ConfigParam15" spec_ConfigParam15 8 eq_refl eq_refl). Qed.
Print Assumptions C16_ConfigParam15.

Definition ex_ConfigParam15 : pv :=
  PObj "ConfigParam15" [("elections_end_before"%string, PInt 954413); ("elections_start_before"%string,
    PInt 954413); ("stake_held_for"%string, PInt 954413); ("validators_elected_for"%string, PInt
    954413)].
Example C16_ConfigParam15_ex :
  wt spec_table spec_ConfigParam15 ex_ConfigParam15 /\
  match encode spec_table spec_ConfigParam15 ex_ConfigParam15 with
  | Ok (bits, refs) =>
      run_type impl_table 8 "ConfigParam15" [] (Cell (-1) (bits ++ [true; false]) (refs ++ [Cell (-1) [] []]))
      = Ok (ex_ConfigParam15, mkS [true; false] [Cell (-1) [] []])
  | Err _ => False
  end.
Proof. split; [wt_tac|vm_compute; reflexivity]. Qed.

(* ---- ConfigParam17 ---- *)
Theorem C16_ConfigParam17 : forall v tb tr bits refs fuel,
  wt spec_table spec_ConfigParam17 v -> encode spec_table spec_ConfigParam17 v = Ok (bits, refs) -> (8 <= fuel)%nat ->
  run_type impl_table fuel "ConfigParam17" [] (Cell (-1) (bits ++ tb) (refs ++ tr)) = Ok (v, mkS tb tr).
Proof. exact (C16_generic "ConfigParam17" spec_ConfigParam17 8 eq_refl eq_refl). Qed.
Print Assumptions C16_ConfigParam17.

Definition ex_ConfigParam17 : pv :=
  PObj "ConfigParam17" [("max_stake"%string, PInt 1000000007); ("max_stake_factor"%string, PInt 954413);
    ("min_stake"%string, PInt 1000000007); ("min_total_stake"%string, PInt 1000000007)].
Example C16_ConfigParam17_ex :
  wt spec_table spec_ConfigParam17 ex_ConfigParam17 /\
  match encode spec_table spec_ConfigParam17 ex_ConfigParam17 with
  | Ok (bits, refs) =>
      run_type impl_table 8 "ConfigParam17" [] (Cell (-1) (bits ++ [true; false]) (refs ++ [Cell (-1) [] []]))
      = Ok (ex_ConfigParam17, mkS [true; false] [Cell (-1) [] []])
  | Err _ => False
  end.
Proof. split; [wt_tac|vm_compute; reflexivity]. Qed.

(* ---- StoragePrices ---- *)
Theorem C16_StoragePrices : forall v tb tr bits refs fuel,
  wt spec_table spec_StoragePrices v -> encode spec_table spec_StoragePrices v = Ok (bits, refs) -> (25 <= fuel)%nat ->
  run_type impl_table fuel "StoragePrices" [] (Cell (-1) (bits ++ tb) (refs ++ tr)) = Ok (v, mkS tb tr).
Proof. exact (C16_generic "StoragePrices" spec_StoragePrices 25 eq_refl eq_refl). Qed.
Print Assumptions C16_StoragePrices.

Definition ex_StoragePrices : pv :=
  PObj "StoragePrices" [("bit_price_ps"%string, PInt 350686); ("cell_price_ps"%string, PInt 350686);
    ("mc_bit_price_ps"%string, PInt 350686); ("mc_cell_price_ps"%string, PInt 350686);
    ("utime_since"%string, PInt 954413)].
Example C16_StoragePrices_ex :
  wt spec_table spec_StoragePrices ex_StoragePrices /\
  match encode spec_table spec_StoragePrices ex_StoragePrices with
  | Ok (bits, refs) =>
      run_type impl_table 25 "StoragePrices" [] (Cell (-1) (bits ++ [true; false]) (refs ++ [Cell (-1) [] []]))
      = Ok (ex_StoragePrices, mkS [true; false] [Cell (-1) [] []])
  | Err _ => False
  end.
Proof. split; [wt_tac|vm_compute; reflexivity]. Qed.

(* ---- BlockLimits ---- *)
Theorem C16_BlockLimits : forall v tb tr bits refs fuel,
  wt spec_table spec_BlockLimits v -> encode spec_table spec_BlockLimits v = Ok (bits, refs) -> (98 <= fuel)%nat ->
  run_type impl_table fuel "BlockLimits" [] (Cell (-1) (bits ++ tb) (refs ++ tr)) = Ok (v, mkS tb tr).
Proof. exact (C16_generic "BlockLimits" spec_BlockLimits 98 eq_refl eq_refl). Qed.
Print Assumptions C16_BlockLimits.

Definition ex_BlockLimits : pv :=
  PObj "BlockLimits" [("bytes"%string, PObj "ParamLimits" [("hard_limit"%string, PInt 954413);
    ("soft_limit"%string, PInt 954413); ("underload"%string, PInt 954413)]); ("gas"%string, PObj
    "ParamLimits" [("hard_limit"%string, PInt 954413); ("soft_limit"%string, PInt 954413);
    ("underload"%string, PInt 954413)]); ("lt_delta"%string, PObj "ParamLimits" [("hard_limit"%string,
    PInt 954413); ("soft_limit"%string, PInt 954413); ("underload"%string, PInt 954413)])].
Example C16_BlockLimits_ex :
  wt spec_table spec_BlockLimits ex_BlockLimits /\
  match encode spec_table spec_BlockLimits ex_BlockLimits with
  | Ok (bits, refs) =>
      run_type impl_table 98 "BlockLimits" [] (Cell (-1) (bits ++ [true; false]) (refs ++ [Cell (-1) [] []]))
      = Ok (ex_BlockLimits, mkS [true; false] [Cell (-1) [] []])
  | Err _ => False
  end.
Proof. split; [wt_tac|vm_compute; reflexivity]. Qed.

(* ---- MsgForwardPrices ---- *)
Theorem C16_MsgForwardPrices : forall v tb tr bits refs fuel,
  wt spec_table spec_MsgForwardPrices v -> encode spec_table spec_MsgForwardPrices v = Ok (bits, refs) -> (26 <= fuel)%nat ->
  run_type impl_table fuel "MsgForwardPrices" [] (Cell (-1) (bits ++ tb) (refs ++ tr)) = Ok (v, mkS tb tr).
Proof. exact (C16_generic "MsgForwardPrices" spec_MsgForwardPrices 26 eq_refl eq_refl). Qed.
Print Assumptions C16_MsgForwardPrices.

Definition ex_MsgForwardPrices : pv :=
  PObj "MsgForwardPrices" [("bit_price"%string, PInt 350686); ("cell_price"%string, PInt 350686);
    ("first_frac"%string, PInt 65535); ("ihr_price_factor"%string, PInt 954413); ("lump_price"%string,
    PInt 350686); ("next_frac"%string, PInt 65535)].
Example C16_MsgForwardPrices_ex :
  wt spec_table spec_MsgForwardPrices ex_MsgForwardPrices /\
  match encode spec_table spec_MsgForwardPrices ex_MsgForwardPrices with
  | Ok (bits, refs) =>
      run_type impl_table 26 "MsgForwardPrices" [] (Cell (-1) (bits ++ [true; false]) (refs ++ [Cell (-1) [] []]))
      = Ok (ex_MsgForwardPrices, mkS [true; false] [Cell (-1) [] []])
  | Err _ => False
  end.
Proof. split; [wt_tac|vm_compute; reflexivity]. Qed.

(* ---- JettonBridgePrices ---- *)
Theorem C16_JettonBridgePrices : forall v tb tr bits refs fuel,
  wt spec_table spec_JettonBridgePrices v -> encode spec_table spec_JettonBridgePrices v = Ok (bits, refs) -> (10 <= fuel)%nat ->
  run_type impl_table fuel "JettonBridgePrices" [] (Cell (-1) (bits ++ tb) (refs ++ tr)) = Ok (v, mkS tb tr).
Proof. exact (C16_generic "JettonBridgePrices" spec_JettonBridgePrices 10 eq_refl eq_refl). Qed.
Print Assumptions C16_JettonBridgePrices.

Definition ex_JettonBridgePrices : pv :=
  PObj "JettonBridgePrices" [("bridge_burn_fee"%string, PInt 1000000007); ("bridge_mint_fee"%string,
    PInt 1000000007); ("discover_gas_consumption"%string, PInt 1000000007);
    ("minter_min_tons_for_storage"%string, PInt 1000000007); ("wallet_gas_consumption"%string, PInt
    1000000007); ("wallet_min_tons_for_storage"%string, PInt 1000000007)].
Example C16_JettonBridgePrices_ex :
  wt spec_table spec_JettonBridgePrices ex_JettonBridgePrices /\
  match encode spec_table spec_JettonBridgePrices ex_JettonBridgePrices with
  | Ok (bits, refs) =>
      run_type impl_table 10 "JettonBridgePrices" [] (Cell (-1) (bits ++ [true; false]) (refs ++ [Cell (-1) [] []]))
      = Ok (ex_JettonBridgePrices, mkS [true; false] [Cell (-1) [] []])
  | Err _ => False
  end.
Proof. split; [wt_tac|vm_compute; reflexivity]. Qed.

(* ---- ParamLimits ---- *)
Theorem C16_ParamLimits : forall v tb tr bits refs fuel,
  wt spec_table spec_ParamLimits v -> encode spec_table spec_ParamLimits v = Ok (bits, refs) -> (25 <= fuel)%nat ->
  run_type impl_table fuel "ParamLimits" [] (Cell (-1) (bits ++ tb) (refs ++ tr)) = Ok (v, mkS tb tr).
Proof. exact (C16_generic "ParamLimits" spec_ParamLimits 25 eq_refl eq_refl). Qed.
Print Assumptions C16_ParamLimits.

Definition ex_ParamLimits : pv :=
  PObj "ParamLimits" [("hard_limit"%string, PInt 954413); ("soft_limit"%string, PInt 954413);
    ("underload"%string, PInt 954413)].
Example C16_ParamLimits_ex :
  wt spec_table spec_ParamLimits ex_ParamLimits /\
  match encode spec_table spec_ParamLimits ex_ParamLimits with
  | Ok (bits, refs) =>
      run_type impl_table 25 "ParamLimits" [] (Cell (-1) (bits ++ [true; false]) (refs ++ [Cell (-1) [] []]))
      = Ok (ex_ParamLimits, mkS [true; false] [Cell (-1) [] []])
  | Err _ => False
  end.
Proof. split; [wt_tac|vm_compute; reflexivity]. Qed.

(* ---- ConfigParam16 ---- *)
Theorem C16_ConfigParam16 : forall v tb tr bits refs fuel,
  wt spec_table spec_ConfigParam16 v -> encode spec_table spec_ConfigParam16 v = Ok (bits, refs) -> (10 <= fuel)%nat ->
  run_type impl_table fuel "ConfigParam16" [] (Cell (-1) (bits ++ tb) (refs ++ tr)) = Ok (v, mkS tb tr).
Proof. exact (C16_generic "ConfigParam16" spec_ConfigParam16 10 eq_refl eq_refl). Qed.
Print Assumptions C16_ConfigParam16.

Definition ex_ConfigParam16 : pv :=
  PObj "ConfigParam16" [("max_main_validators"%string, PInt 65535); ("max_validators"%string, PInt
    65535); ("min_validators"%string, PInt 65535)].
Example C16_ConfigParam16_ex :
  wt spec_table spec_ConfigParam16 ex_ConfigParam16 /\
  match encode spec_table spec_ConfigParam16 ex_ConfigParam16 with
  | Ok (bits, refs) =>
      run_type impl_table 10 "ConfigParam16" [] (Cell (-1) (bits ++ [true; false]) (refs ++ [Cell (-1) [] []]))
      = Ok (ex_ConfigParam16, mkS [true; false] [Cell (-1) [] []])
  | Err _ => False
  end.
Proof. split; [wt_tac|vm_compute; reflexivity]. Qed.

(* ---- ConfigParam0 ---- *)
Theorem C16_ConfigParam0 : forall v tb tr bits refs fuel,
  wt spec_table spec_ConfigParam0 v -> encode spec_table spec_ConfigParam0 v = Ok (bits, refs) -> (5 <= fuel)%nat ->
  run_type impl_table fuel "ConfigParam0" [] (Cell (-1) (bits ++ tb) (refs ++ tr)) = Ok (v, mkS tb tr).
Proof. exact (C16_generic "ConfigParam0" spec_ConfigParam0 5 eq_refl eq_refl). Qed.
Print Assumptions C16_ConfigParam0.

Definition ex_ConfigParam0 : pv :=
  PObj "ConfigParam0" [("config_addr"%string, PBytes [7%N; 14%N; 21%N; 28%N; 35%N; 42%N; 49%N; 56%N;
    63%N; 70%N; 77%N; 84%N; 91%N; 98%N; 105%N; 112%N; 119%N; 126%N; 133%N; 140%N; 147%N; 154%N; 161%N;
    168%N; 175%N; 182%N; 189%N; 196%N; 203%N; 210%N; 217%N; 224%N]); ("config_addr_hex"%string, PHex
    [7%N; 14%N; 21%N; 28%N; 35%N; 42%N; 49%N; 56%N; 63%N; 70%N; 77%N; 84%N; 91%N; 98%N; 105%N; 112%N;
    119%N; 126%N; 133%N; 140%N; 147%N; 154%N; 161%N; 168%N; 175%N; 182%N; 189%N; 196%N; 203%N; 210%N;
    217%N; 224%N])].
Example C16_ConfigParam0_ex :
  wt spec_table spec_ConfigParam0 ex_ConfigParam0 /\
  match encode spec_table spec_ConfigParam0 ex_ConfigParam0 with
  | Ok (bits, refs) =>
      run_type impl_table 5 "ConfigParam0" [] (Cell (-1) (bits ++ [true; false]) (refs ++ [Cell (-1) [] []]))
      = Ok (ex_ConfigParam0, mkS [true; false] [Cell (-1) [] []])
  | Err _ => False
  end.
Proof. split; [wt_tac|vm_compute; reflexivity]. Qed.

(* ---- ConfigParam1 ---- *)
Theorem C16_ConfigParam1 : forall v tb tr bits refs fuel,
  wt spec_table spec_ConfigParam1 v -> encode spec_table spec_ConfigParam1 v = Ok (bits, refs) -> (5 <= fuel)%nat ->
  run_type impl_table fuel "ConfigParam1" [] (Cell (-1) (bits ++ tb) (refs ++ tr)) = Ok (v, mkS tb tr).
Proof. exact (C16_generic "ConfigParam1" spec_ConfigParam1 5 eq_refl eq_refl). Qed.
Print Assumptions C16_ConfigParam1.

Definition ex_ConfigParam1 : pv :=
  PObj "ConfigParam1" [("elector_addr"%string, PBytes [7%N; 14%N; 21%N; 28%N; 35%N; 42%N; 49%N; 56%N;
    63%N; 70%N; 77%N; 84%N; 91%N; 98%N; 105%N; 112%N; 119%N; 126%N; 133%N; 140%N; 147%N; 154%N; 161%N;
    168%N; 175%N; 182%N; 189%N; 196%N; 203%N; 210%N; 217%N; 224%N]); ("elector_addr_hex"%string, PHex
    [7%N; 14%N; 21%N; 28%N; 35%N; 42%N; 49%N; 56%N; 63%N; 70%N; 77%N; 84%N; 91%N; 98%N; 105%N; 112%N;
    119%N; 126%N; 133%N; 140%N; 147%N; 154%N; 161%N; 168%N; 175%N; 182%N; 189%N; 196%N; 203%N; 210%N;
    217%N; 224%N])].
Example C16_ConfigParam1_ex :
  wt spec_table spec_ConfigParam1 ex_ConfigParam1 /\
  match encode spec_table spec_ConfigParam1 ex_ConfigParam1 with
  | Ok (bits, refs) =>
      run_type impl_table 5 "ConfigParam1" [] (Cell (-1) (bits ++ [true; false]) (refs ++ [Cell (-1) [] []]))
      = Ok (ex_ConfigParam1, mkS [true; false] [Cell (-1) [] []])
  | Err _ => False
  end.
Proof. split; [wt_tac|vm_compute; reflexivity]. Qed.

(* ---- ConfigParam2 ---- *)
Theorem C16_ConfigParam2 : forall v tb tr bits refs fuel,
  wt spec_table spec_ConfigParam2 v -> encode spec_table spec_ConfigParam2 v = Ok (bits, refs) -> (5 <= fuel)%nat ->
  run_type impl_table fuel "ConfigParam2" [] (Cell (-1) (bits ++ tb) (refs ++ tr)) = Ok (v, mkS tb tr).
Proof. exact (C16_generic "ConfigParam2" spec_ConfigParam2 5 eq_refl eq_refl). Qed.
Print Assumptions C16_ConfigParam2.

Definition ex_ConfigParam2 : pv :=
  PObj "ConfigParam2" [("minter_addr"%string, PBytes [7%N; 14%N; 21%N; 28%N; 35%N; 42%N; 49%N; 56%N;
    63%N; 70%N; 77%N; 84%N; 91%N; 98%N; 105%N; 112%N; 119%N; 126%N; 133%N; 140%N; 147%N; 154%N; 161%N;
    168%N; 175%N; 182%N; 189%N; 196%N; 203%N; 210%N; 217%N; 224%N]); ("minter_addr_hex"%string, PHex
    [7%N; 14%N; 21%N; 28%N; 35%N; 42%N; 49%N; 56%N; 63%N; 70%N; 77%N; 84%N; 91%N; 98%N; 105%N; 112%N;
    119%N; 126%N; 133%N; 140%N; 147%N; 154%N; 161%N; 168%N; 175%N; 182%N; 189%N; 196%N; 203%N; 210%N;
    217%N; 224%N])].
Example C16_ConfigParam2_ex :
  wt spec_table spec_ConfigParam2 ex_ConfigParam2 /\
  match encode spec_table spec_ConfigParam2 ex_ConfigParam2 with
  | Ok (bits, refs) =>
      run_type impl_table 5 "ConfigParam2" [] (Cell (-1) (bits ++ [true; false]) (refs ++ [Cell (-1) [] []]))
      = Ok (ex_ConfigParam2, mkS [true; false] [Cell (-1) [] []])
  | Err _ => False
  end.
Proof. split; [wt_tac|vm_compute; reflexivity]. Qed.

(* ---- ConfigParam3 ---- *)
Theorem C16_ConfigParam3 : forall v tb tr bits refs fuel,
  wt spec_table spec_ConfigParam3 v -> encode spec_table spec_ConfigParam3 v = Ok (bits, refs) -> (5 <= fuel)%nat ->
  run_type impl_table fuel "ConfigParam3" [] (Cell (-1) (bits ++ tb) (refs ++ tr)) = Ok (v, mkS tb tr).
Proof. exact (C16_generic "ConfigParam3" spec_ConfigParam3 5 eq_refl eq_refl). Qed.
Print Assumptions C16_ConfigParam3.

Definition ex_ConfigParam3 : pv :=
  PObj "ConfigParam3" [("fee_collector_addr"%string, PBytes [7%N; 14%N; 21%N; 28%N; 35%N; 42%N; 49%N;
    56%N; 63%N; 70%N; 77%N; 84%N; 91%N; 98%N; 105%N; 112%N; 119%N; 126%N; 133%N; 140%N; 147%N; 154%N;
    161%N; 168%N; 175%N; 182%N; 189%N; 196%N; 203%N; 210%N; 217%N; 224%N]);
    ("fee_collector_addr_hex"%string, PHex [7%N; 14%N; 21%N; 28%N; 35%N; 42%N; 49%N; 56%N; 63%N; 70%N;
    77%N; 84%N; 91%N; 98%N; 105%N; 112%N; 119%N; 126%N; 133%N; 140%N; 147%N; 154%N; 161%N; 168%N; 175%N;
    182%N; 189%N; 196%N; 203%N; 210%N; 217%N; 224%N])].
Example C16_ConfigParam3_ex :
  wt spec_table spec_ConfigParam3 ex_ConfigParam3 /\
  match encode spec_table spec_ConfigParam3 ex_ConfigParam3 with
  | Ok (bits, refs) =>
      run_type impl_table 5 "ConfigParam3" [] (Cell (-1) (bits ++ [true; false]) (refs ++ [Cell (-1) [] []]))
      = Ok (ex_ConfigParam3, mkS [true; false] [Cell (-1) [] []])
  | Err _ => False
  end.
Proof. split; [wt_tac|vm_compute; reflexivity]. Qed.

(* ---- ConfigParam4 ---- *)
Theorem C16_ConfigParam4 : forall v tb tr bits refs fuel,
  wt spec_table spec_ConfigParam4 v -> encode spec_table spec_ConfigParam4 v = Ok (bits, refs) -> (5 <= fuel)%nat ->
  run_type impl_table fuel "ConfigParam4" [] (Cell (-1) (bits ++ tb) (refs ++ tr)) = Ok (v, mkS tb tr).
Proof. exact (C16_generic "ConfigParam4" spec_ConfigParam4 5 eq_refl eq_refl). Qed.
Print Assumptions C16_ConfigParam4.

Definition ex_ConfigParam4 : pv :=
  PObj "ConfigParam4" [("dns_root_addr"%string, PBytes [7%N; 14%N; 21%N; 28%N; 35%N; 42%N; 49%N; 56%N;
    63%N; 70%N; 77%N; 84%N; 91%N; 98%N; 105%N; 112%N; 119%N; 126%N; 133%N; 140%N; 147%N; 154%N; 161%N;
    168%N; 175%N; 182%N; 189%N; 196%N; 203%N; 210%N; 217%N; 224%N]); ("dns_root_addr_hex"%string, PHex
    [7%N; 14%N; 21%N; 28%N; 35%N; 42%N; 49%N; 56%N; 63%N; 70%N; 77%N; 84%N; 91%N; 98%N; 105%N; 112%N;
    119%N; 126%N; 133%N; 140%N; 147%N; 154%N; 161%N; 168%N; 175%N; 182%N; 189%N; 196%N; 203%N; 210%N;
    217%N; 224%N])].
Example C16_ConfigParam4_ex :
  wt spec_table spec_ConfigParam4 ex_ConfigParam4 /\
  match encode spec_table spec_ConfigParam4 ex_ConfigParam4 with
  | Ok (bits, refs) =>
      run_type impl_table 5 "ConfigParam4" [] (Cell (-1) (bits ++ [true; false]) (refs ++ [Cell (-1) [] []]))
      = Ok (ex_ConfigParam4, mkS [true; false] [Cell (-1) [] []])
  | Err _ => False
  end.
Proof. split; [wt_tac|vm_compute; reflexivity]. Qed.

(* ---- ConfigParam8 ---- *)
Theorem C16_ConfigParam8 : forall v tb tr bits refs fuel,
  wt spec_table spec_ConfigParam8 v -> encode spec_table spec_ConfigParam8 v = Ok (bits, refs) -> (27 <= fuel)%nat ->
  run_type impl_table fuel "ConfigParam8" [] (Cell (-1) (bits ++ tb) (refs ++ tr)) = Ok (v, mkS tb tr).
Proof. exact (C16_generic "ConfigParam8" spec_ConfigParam8 27 eq_refl eq_refl). Qed.
Print Assumptions C16_ConfigParam8.

Definition ex_ConfigParam8 : pv :=
  PObj "ConfigParam8" [("capabilities"%string, PInt 350686); ("version"%string, PInt 954413)].
Example C16_ConfigParam8_ex :
  wt spec_table spec_ConfigParam8 ex_ConfigParam8 /\
  match encode spec_table spec_ConfigParam8 ex_ConfigParam8 with
  | Ok (bits, refs) =>
      run_type impl_table 27 "ConfigParam8" [] (Cell (-1) (bits ++ [true; false]) (refs ++ [Cell (-1) [] []]))
      = Ok (ex_ConfigParam8, mkS [true; false] [Cell (-1) [] []])
  | Err _ => False
  end.
Proof. split; [wt_tac|vm_compute; reflexivity]. Qed.

(* ---- ConfigParam11 ---- *)
Theorem C16_ConfigParam11 : forall v tb tr bits refs fuel,
  wt spec_table spec_ConfigParam11 v -> encode spec_table spec_ConfigParam11 v = Ok (bits, refs) -> (85 <= fuel)%nat ->
  run_type impl_table fuel "ConfigParam11" [] (Cell (-1) (bits ++ tb) (refs ++ tr)) = Ok (v, mkS tb tr).
Proof. exact (C16_generic "ConfigParam11" spec_ConfigParam11 85 eq_refl eq_refl). Qed.
Print Assumptions C16_ConfigParam11.

Definition ex_ConfigParam11 : pv :=
  PObj "ConfigParam11" [("critical_params"%string, PObj "ConfigProposalSetup" [("bit_price"%string,
    PInt 954413); ("cell_price"%string, PInt 954413); ("max_losses"%string, PInt 255);
    ("max_store_sec"%string, PInt 954413); ("max_tot_rounds"%string, PInt 255); ("min_store_sec"%string,
    PInt 954413); ("min_tot_rounds"%string, PInt 255); ("min_wins"%string, PInt 255)]);
    ("normal_params"%string, PObj "ConfigProposalSetup" [("bit_price"%string, PInt 954413);
    ("cell_price"%string, PInt 954413); ("max_losses"%string, PInt 255); ("max_store_sec"%string, PInt
    954413); ("max_tot_rounds"%string, PInt 255); ("min_store_sec"%string, PInt 954413);
    ("min_tot_rounds"%string, PInt 255); ("min_wins"%string, PInt 255)])].
Example C16_ConfigParam11_ex :
  wt spec_table spec_ConfigParam11 ex_ConfigParam11 /\
  match encode spec_table spec_ConfigParam11 ex_ConfigParam11 with
  | Ok (bits, refs) =>
      run_type impl_table 85 "ConfigParam11" [] (Cell (-1) (bits ++ [true; false]) (refs ++ [Cell (-1) [] []]))
      = Ok (ex_ConfigParam11, mkS [true; false] [Cell (-1) [] []])
  | Err _ => False
  end.
Proof. split; [wt_tac|vm_compute; reflexivity]. Qed.

(* ---- ConfigParam13 ---- *)
Theorem C16_ConfigParam13 : forall v tb tr bits refs fuel,
  wt spec_table spec_ConfigParam13 v -> encode spec_table spec_ConfigParam13 v = Ok (bits, refs) -> (28 <= fuel)%nat ->
  run_type impl_table fuel "ConfigParam13" [] (Cell (-1) (bits ++ tb) (refs ++ tr)) = Ok (v, mkS tb tr).
Proof. exact (C16_generic "ConfigParam13" spec_ConfigParam13 28 eq_refl eq_refl). Qed.
Print Assumptions C16_ConfigParam13.

Definition ex_ConfigParam13 : pv :=
  PObj "ConfigParam13" [("bit_price"%string, PInt 1000000007); ("cell_price"%string, PInt
    1000000007); ("deposit"%string, PInt 1000000007)].
Example C16_ConfigParam13_ex :
  wt spec_table spec_ConfigParam13 ex_ConfigParam13 /\
  match encode spec_table spec_ConfigParam13 ex_ConfigParam13 with
  | Ok (bits, refs) =>
      run_type impl_table 28 "ConfigParam13" [] (Cell (-1) (bits ++ [true; false]) (refs ++ [Cell (-1) [] []]))
      = Ok (ex_ConfigParam13, mkS [true; false] [Cell (-1) [] []])
  | Err _ => False
  end.
Proof. split; [wt_tac|vm_compute; reflexivity]. Qed.

(* ---- ConfigParam14 ---- *)
Theorem C16_ConfigParam14 : forall v tb tr bits refs fuel,
  wt spec_table spec_ConfigParam14 v -> encode spec_table spec_ConfigParam14 v = Ok (bits, refs) -> (27 <= fuel)%nat ->
  run_type impl_table fuel "ConfigParam14" [] (Cell (-1) (bits ++ tb) (refs ++ tr)) = Ok (v, mkS tb tr).
Proof. exact (C16_generic "ConfigParam14" spec_ConfigParam14 27 eq_refl eq_refl). Qed.
Print Assumptions C16_ConfigParam14.

Definition ex_ConfigParam14 : pv :=
  PObj "ConfigParam14" [("basechain_block_fee"%string, PInt 1000000007);
    ("masterchain_block_fee"%string, PInt 1000000007)].
Example C16_ConfigParam14_ex :
  wt spec_table spec_ConfigParam14 ex_ConfigParam14 /\
  match encode spec_table spec_ConfigParam14 ex_ConfigParam14 with
  | Ok (bits, refs) =>
      run_type impl_table 27 "ConfigParam14" [] (Cell (-1) (bits ++ [true; false]) (refs ++ [Cell (-1) [] []]))
      = Ok (ex_ConfigParam14, mkS [true; false] [Cell (-1) [] []])
  | Err _ => False
  end.
Proof. split; [wt_tac|vm_compute; reflexivity]. Qed.

(* ---- ConfigParam22 ---- *)
Theorem C16_ConfigParam22 : forall v tb tr bits refs fuel,
  wt spec_table spec_ConfigParam22 v -> encode spec_table spec_ConfigParam22 v = Ok (bits, refs) -> (103 <= fuel)%nat ->
  run_type impl_table fuel "ConfigParam22" [] (Cell (-1) (bits ++ tb) (refs ++ tr)) = Ok (v, mkS tb tr).
Proof. exact (C16_generic "ConfigParam22" spec_ConfigParam22 103 eq_refl eq_refl). Qed.
Print Assumptions C16_ConfigParam22.

Definition ex_ConfigParam22 : pv :=
  PObj "ConfigParam22" [("bytes"%string, PObj "ParamLimits" [("hard_limit"%string, PInt 954413);
    ("soft_limit"%string, PInt 954413); ("underload"%string, PInt 954413)]); ("gas"%string, PObj
    "ParamLimits" [("hard_limit"%string, PInt 954413); ("soft_limit"%string, PInt 954413);
    ("underload"%string, PInt 954413)]); ("lt_delta"%string, PObj "ParamLimits" [("hard_limit"%string,
    PInt 954413); ("soft_limit"%string, PInt 954413); ("underload"%string, PInt 954413)])].
Example C16_ConfigParam22_ex :
  wt spec_table spec_ConfigParam22 ex_ConfigParam22 /\
  match encode spec_table spec_ConfigParam22 ex_ConfigParam22 with
  | Ok (bits, refs) =>
      run_type impl_table 103 "ConfigParam22" [] (Cell (-1) (bits ++ [true; false]) (refs ++ [Cell (-1) [] []]))
      = Ok (ex_ConfigParam22, mkS [true; false] [Cell (-1) [] []])
  | Err _ => False
  end.
Proof. split; [wt_tac|vm_compute; reflexivity]. Qed.

(* ---- ConfigParam23 ---- *)
Theorem C16_ConfigParam23 : forall v tb tr bits refs fuel,
  wt spec_table spec_ConfigParam23 v -> encode spec_table spec_ConfigParam23 v = Ok (bits, refs) -> (103 <= fuel)%nat ->
  run_type impl_table fuel "ConfigParam23" [] (Cell (-1) (bits ++ tb) (refs ++ tr)) = Ok (v, mkS tb tr).
Proof. exact (C16_generic "ConfigParam23" spec_ConfigParam23 103 eq_refl eq_refl). Qed.
Print Assumptions C16_ConfigParam23.

Definition ex_ConfigParam23 : pv :=
  PObj "ConfigParam23" [("bytes"%string, PObj "ParamLimits" [("hard_limit"%string, PInt 954413);
    ("soft_limit"%string, PInt 954413); ("underload"%string, PInt 954413)]); ("gas"%string, PObj
    "ParamLimits" [("hard_limit"%string, PInt 954413); ("soft_limit"%string, PInt 954413);
    ("underload"%string, PInt 954413)]); ("lt_delta"%string, PObj "ParamLimits" [("hard_limit"%string,
    PInt 954413); ("soft_limit"%string, PInt 954413); ("underload"%string, PInt 954413)])].
Example C16_ConfigParam23_ex :
  wt spec_table spec_ConfigParam23 ex_ConfigParam23 /\
  match encode spec_table spec_ConfigParam23 ex_ConfigParam23 with
  | Ok (bits, refs) =>
      run_type impl_table 103 "ConfigParam23" [] (Cell (-1) (bits ++ [true; false]) (refs ++ [Cell (-1) [] []]))
      = Ok (ex_ConfigParam23, mkS [true; false] [Cell (-1) [] []])
  | Err _ => False
  end.
Proof. split; [wt_tac|vm_compute; reflexivity]. Qed.

(* ---- ConfigParam24 ---- *)
Theorem C16_ConfigParam24 : forall v tb tr bits refs fuel,
  wt spec_table spec_ConfigParam24 v -> encode spec_table spec_ConfigParam24 v = Ok (bits, refs) -> (31 <= fuel)%nat ->
  run_type impl_table fuel "ConfigParam24" [] (Cell (-1) (bits ++ tb) (refs ++ tr)) = Ok (v, mkS tb tr).
Proof. exact (C16_generic "ConfigParam24" spec_ConfigParam24 31 eq_refl eq_refl). Qed.
Print Assumptions C16_ConfigParam24.

Definition ex_ConfigParam24 : pv :=
  PObj "ConfigParam24" [("bit_price"%string, PInt 350686); ("cell_price"%string, PInt 350686);
    ("first_frac"%string, PInt 65535); ("ihr_price_factor"%string, PInt 954413); ("lump_price"%string,
    PInt 350686); ("next_frac"%string, PInt 65535)].
Example C16_ConfigParam24_ex :
  wt spec_table spec_ConfigParam24 ex_ConfigParam24 /\
  match encode spec_table spec_ConfigParam24 ex_ConfigParam24 with
  | Ok (bits, refs) =>
      run_type impl_table 31 "ConfigParam24" [] (Cell (-1) (bits ++ [true; false]) (refs ++ [Cell (-1) [] []]))
      = Ok (ex_ConfigParam24, mkS [true; false] [Cell (-1) [] []])
  | Err _ => False
  end.
Proof. split; [wt_tac|vm_compute; reflexivity]. Qed.

(* ---- ConfigParam25 ---- *)
Theorem C16_ConfigParam25 : forall v tb tr bits refs fuel,
  wt spec_table spec_ConfigParam25 v -> encode spec_table spec_ConfigParam25 v = Ok (bits, refs) -> (31 <= fuel)%nat ->
  run_type impl_table fuel "ConfigParam25" [] (Cell (-1) (bits ++ tb) (refs ++ tr)) = Ok (v, mkS tb tr).
Proof. exact (C16_generic "ConfigParam25" spec_ConfigParam25 31 eq_refl eq_refl). Qed.
Print Assumptions C16_ConfigParam25.

Definition ex_ConfigParam25 : pv :=
  PObj "ConfigParam25" [("bit_price"%string, PInt 350686); ("cell_price"%string, PInt 350686);
    ("first_frac"%string, PInt 65535); ("ihr_price_factor"%string, PInt 954413); ("lump_price"%string,
    PInt 350686); ("next_frac"%string, PInt 65535)].
Example C16_ConfigParam25_ex :
  wt spec_table spec_ConfigParam25 ex_ConfigParam25 /\
  match encode spec_table spec_ConfigParam25 ex_ConfigParam25 with
  | Ok (bits, refs) =>
      run_type impl_table 31 "ConfigParam25" [] (Cell (-1) (bits ++ [true; false]) (refs ++ [Cell (-1) [] []]))
      = Ok (ex_ConfigParam25, mkS [true; false] [Cell (-1) [] []])
  | Err _ => False
  end.
Proof. split; [wt_tac|vm_compute; reflexivity]. Qed.

(* ---- ConfigParam28 ---- *)
Theorem C16_ConfigParam28 : forall v tb tr bits refs fuel,
  wt spec_table spec_ConfigParam28 v -> encode spec_table spec_ConfigParam28 v = Ok (bits, refs) -> (38 <= fuel)%nat ->
  run_type impl_table fuel "ConfigParam28" [] (Cell (-1) (bits ++ tb) (refs ++ tr)) = Ok (v, mkS tb tr).
Proof. exact (C16_generic "ConfigParam28" spec_ConfigParam28 38 eq_refl eq_refl). Qed.
Print Assumptions C16_ConfigParam28.

Definition ex_ConfigParam28 : pv :=
  PObj "ConfigParam28" [("mc_catchain_lifetime"%string, PInt 954413);
    ("shard_catchain_lifetime"%string, PInt 954413); ("shard_validators_lifetime"%string, PInt 954413);
    ("shard_validators_num"%string, PInt 954413); ("shuffle_mc_validators"%string, PBool true);
    ("type_"%string, PStr "catchain_config_new")].
Example C16_ConfigParam28_ex :
  wt spec_table spec_ConfigParam28 ex_ConfigParam28 /\
  match encode spec_table spec_ConfigParam28 ex_ConfigParam28 with
  | Ok (bits, refs) =>
      run_type impl_table 38 "ConfigParam28" [] (Cell (-1) (bits ++ [true; false]) (refs ++ [Cell (-1) [] []]))
      = Ok (ex_ConfigParam28, mkS [true; false] [Cell (-1) [] []])
  | Err _ => False
  end.
Proof. split; [wt_tac|vm_compute; reflexivity]. Qed.

(* ---- ConfigParam31 ---- *)
Theorem C16_ConfigParam31 : forall v tb tr bits refs fuel,
  wt spec_table spec_ConfigParam31 v -> encode spec_table spec_ConfigParam31 v = Ok (bits, refs) -> (7 <= fuel)%nat ->
  run_type impl_table fuel "ConfigParam31" [] (Cell (-1) (bits ++ tb) (refs ++ tr)) = Ok (v, mkS tb tr).
Proof. exact (C16_generic "ConfigParam31" spec_ConfigParam31 7 eq_refl eq_refl). Qed.
Print Assumptions C16_ConfigParam31.

Definition ex_ConfigParam31 : pv :=
  PObj "ConfigParam31" [("fundamental_smc_addr"%string, PDict [(3, PBool true); (10, PBool true); (11,
    PBool true)])].
Example C16_ConfigParam31_ex :
  wt spec_table spec_ConfigParam31 ex_ConfigParam31 /\
  match encode spec_table spec_ConfigParam31 ex_ConfigParam31 with
  | Ok (bits, refs) =>
      run_type impl_table 7 "ConfigParam31" [] (Cell (-1) (bits ++ [true; false]) (refs ++ [Cell (-1) [] []]))
      = Ok (ex_ConfigParam31, mkS [true; false] [Cell (-1) [] []])
  | Err _ => False
  end.
Proof. split; [wt_tac|vm_compute; reflexivity]. Qed.

(* ---- ConfigParam44 ---- *)
Theorem C16_ConfigParam44 : forall v tb tr bits refs fuel,
  wt spec_table spec_ConfigParam44 v -> encode spec_table spec_ConfigParam44 v = Ok (bits, refs) -> (29 <= fuel)%nat ->
  run_type impl_table fuel "ConfigParam44" [] (Cell (-1) (bits ++ tb) (refs ++ tr)) = Ok (v, mkS tb tr).
Proof. exact (C16_generic "ConfigParam44" spec_ConfigParam44 29 eq_refl eq_refl). Qed.
Print Assumptions C16_ConfigParam44.

Definition ex_ConfigParam44 : pv :=
  PObj "ConfigParam44" [("addresses"%string, PDict [(3, PNone); (10, PNone); (11, PNone)]);
    ("suspended_until"%string, PInt 954413)].
Example C16_ConfigParam44_ex :
  wt spec_table spec_ConfigParam44 ex_ConfigParam44 /\
  match encode spec_table spec_ConfigParam44 ex_ConfigParam44 with
  | Ok (bits, refs) =>
      run_type impl_table 29 "ConfigParam44" [] (Cell (-1) (bits ++ [true; false]) (refs ++ [Cell (-1) [] []]))
      = Ok (ex_ConfigParam44, mkS [true; false] [Cell (-1) [] []])
  | Err _ => False
  end.
Proof. split; [wt_tac|vm_compute; reflexivity]. Qed.

(* ---- ConfigParam71 ---- *)
Theorem C16_ConfigParam71 : forall v tb tr bits refs fuel,
  wt spec_table spec_ConfigParam71 v -> encode spec_table spec_ConfigParam71 v = Ok (bits, refs) -> (16 <= fuel)%nat ->
  run_type impl_table fuel "ConfigParam71" [] (Cell (-1) (bits ++ tb) (refs ++ tr)) = Ok (v, mkS tb tr).
Proof. exact (C16_generic "ConfigParam71" spec_ConfigParam71 16 eq_refl eq_refl). Qed.
Print Assumptions C16_ConfigParam71.

Definition ex_ConfigParam71 : pv :=
  PObj "ConfigParam71" [("bridge_address"%string, PBytes [7%N; 14%N; 21%N; 28%N; 35%N; 42%N; 49%N;
    56%N; 63%N; 70%N; 77%N; 84%N; 91%N; 98%N; 105%N; 112%N; 119%N; 126%N; 133%N; 140%N; 147%N; 154%N;
    161%N; 168%N; 175%N; 182%N; 189%N; 196%N; 203%N; 210%N; 217%N; 224%N]);
    ("bridge_address_hex"%string, PHex [7%N; 14%N; 21%N; 28%N; 35%N; 42%N; 49%N; 56%N; 63%N; 70%N; 77%N;
    84%N; 91%N; 98%N; 105%N; 112%N; 119%N; 126%N; 133%N; 140%N; 147%N; 154%N; 161%N; 168%N; 175%N;
    182%N; 189%N; 196%N; 203%N; 210%N; 217%N; 224%N]); ("external_chain_address_hex"%string, PHex [7%N;
    14%N; 21%N; 28%N; 35%N; 42%N; 49%N; 56%N; 63%N; 70%N; 77%N; 84%N; 91%N; 98%N; 105%N; 112%N; 119%N;
    126%N; 133%N; 140%N; 147%N; 154%N; 161%N; 168%N; 175%N; 182%N; 189%N; 196%N; 203%N; 210%N; 217%N;
    224%N]); ("oracle_mutlisig_address"%string, PBytes [7%N; 14%N; 21%N; 28%N; 35%N; 42%N; 49%N; 56%N;
    63%N; 70%N; 77%N; 84%N; 91%N; 98%N; 105%N; 112%N; 119%N; 126%N; 133%N; 140%N; 147%N; 154%N; 161%N;
    168%N; 175%N; 182%N; 189%N; 196%N; 203%N; 210%N; 217%N; 224%N]);
    ("oracle_mutlisig_address_hex"%string, PHex [7%N; 14%N; 21%N; 28%N; 35%N; 42%N; 49%N; 56%N; 63%N;
    70%N; 77%N; 84%N; 91%N; 98%N; 105%N; 112%N; 119%N; 126%N; 133%N; 140%N; 147%N; 154%N; 161%N; 168%N;
    175%N; 182%N; 189%N; 196%N; 203%N; 210%N; 217%N; 224%N]); ("oracles"%string, PDict [(3, PInt
    156648); (10, PInt 156648); (11, PInt 156648)])].
Example C16_ConfigParam71_ex :
  wt spec_table spec_ConfigParam71 ex_ConfigParam71 /\
  match encode spec_table spec_ConfigParam71 ex_ConfigParam71 with
  | Ok (bits, refs) =>
      run_type impl_table 16 "ConfigParam71" [] (Cell (-1) (bits ++ [true; false]) (refs ++ [Cell (-1) [] []]))
      = Ok (ex_ConfigParam71, mkS [true; false] [Cell (-1) [] []])
  | Err _ => False
  end.
Proof. split; [wt_tac|vm_compute; reflexivity]. Qed.

(* ---- ConfigParam72 ---- *)
Theorem C16_ConfigParam72 : forall v tb tr bits refs fuel,
  wt spec_table spec_ConfigParam72 v -> encode spec_table spec_ConfigParam72 v = Ok (bits, refs) -> (16 <= fuel)%nat ->
  run_type impl_table fuel "ConfigParam72" [] (Cell (-1) (bits ++ tb) (refs ++ tr)) = Ok (v, mkS tb tr).
Proof. exact (C16_generic "ConfigParam72" spec_ConfigParam72 16 eq_refl eq_refl). Qed.
Print Assumptions C16_ConfigParam72.

Definition ex_ConfigParam72 : pv :=
  PObj "ConfigParam72" [("bridge_address"%string, PBytes [7%N; 14%N; 21%N; 28%N; 35%N; 42%N; 49%N;
    56%N; 63%N; 70%N; 77%N; 84%N; 91%N; 98%N; 105%N; 112%N; 119%N; 126%N; 133%N; 140%N; 147%N; 154%N;
    161%N; 168%N; 175%N; 182%N; 189%N; 196%N; 203%N; 210%N; 217%N; 224%N]);
    ("bridge_address_hex"%string, PHex [7%N; 14%N; 21%N; 28%N; 35%N; 42%N; 49%N; 56%N; 63%N; 70%N; 77%N;
    84%N; 91%N; 98%N; 105%N; 112%N; 119%N; 126%N; 133%N; 140%N; 147%N; 154%N; 161%N; 168%N; 175%N;
    182%N; 189%N; 196%N; 203%N; 210%N; 217%N; 224%N]); ("external_chain_address_hex"%string, PHex [7%N;
    14%N; 21%N; 28%N; 35%N; 42%N; 49%N; 56%N; 63%N; 70%N; 77%N; 84%N; 91%N; 98%N; 105%N; 112%N; 119%N;
    126%N; 133%N; 140%N; 147%N; 154%N; 161%N; 168%N; 175%N; 182%N; 189%N; 196%N; 203%N; 210%N; 217%N;
    224%N]); ("oracle_mutlisig_address"%string, PBytes [7%N; 14%N; 21%N; 28%N; 35%N; 42%N; 49%N; 56%N;
    63%N; 70%N; 77%N; 84%N; 91%N; 98%N; 105%N; 112%N; 119%N; 126%N; 133%N; 140%N; 147%N; 154%N; 161%N;
    168%N; 175%N; 182%N; 189%N; 196%N; 203%N; 210%N; 217%N; 224%N]);
    ("oracle_mutlisig_address_hex"%string, PHex [7%N; 14%N; 21%N; 28%N; 35%N; 42%N; 49%N; 56%N; 63%N;
    70%N; 77%N; 84%N; 91%N; 98%N; 105%N; 112%N; 119%N; 126%N; 133%N; 140%N; 147%N; 154%N; 161%N; 168%N;
    175%N; 182%N; 189%N; 196%N; 203%N; 210%N; 217%N; 224%N]); ("oracles"%string, PDict [(3, PInt
    156648); (10, PInt 156648); (11, PInt 156648)])].
Example C16_ConfigParam72_ex :
  wt spec_table spec_ConfigParam72 ex_ConfigParam72 /\
  match encode spec_table spec_ConfigParam72 ex_ConfigParam72 with
  | Ok (bits, refs) =>
      run_type impl_table 16 "ConfigParam72" [] (Cell (-1) (bits ++ [true; false]) (refs ++ [Cell (-1) [] []]))
      = Ok (ex_ConfigParam72, mkS [true; false] [Cell (-1) [] []])
  | Err _ => False
  end.
Proof. split; [wt_tac|vm_compute; reflexivity]. Qed.

(* ---- ConfigParam73 ---- *)
Theorem C16_ConfigParam73 : forall v tb tr bits refs fuel,
  wt spec_table spec_ConfigParam73 v -> encode spec_table spec_ConfigParam73 v = Ok (bits, refs) -> (16 <= fuel)%nat ->
  run_type impl_table fuel "ConfigParam73" [] (Cell (-1) (bits ++ tb) (refs ++ tr)) = Ok (v, mkS tb tr).
Proof. exact (C16_generic "ConfigParam73" spec_ConfigParam73 16 eq_refl eq_refl). Qed.
Print Assumptions C16_ConfigParam73.

Definition ex_ConfigParam73 : pv :=
  PObj "ConfigParam73" [("bridge_address"%string, PBytes [7%N; 14%N; 21%N; 28%N; 35%N; 42%N; 49%N;
    56%N; 63%N; 70%N; 77%N; 84%N; 91%N; 98%N; 105%N; 112%N; 119%N; 126%N; 133%N; 140%N; 147%N; 154%N;
    161%N; 168%N; 175%N; 182%N; 189%N; 196%N; 203%N; 210%N; 217%N; 224%N]);
    ("bridge_address_hex"%string, PHex [7%N; 14%N; 21%N; 28%N; 35%N; 42%N; 49%N; 56%N; 63%N; 70%N; 77%N;
    84%N; 91%N; 98%N; 105%N; 112%N; 119%N; 126%N; 133%N; 140%N; 147%N; 154%N; 161%N; 168%N; 175%N;
    182%N; 189%N; 196%N; 203%N; 210%N; 217%N; 224%N]); ("external_chain_address_hex"%string, PHex [7%N;
    14%N; 21%N; 28%N; 35%N; 42%N; 49%N; 56%N; 63%N; 70%N; 77%N; 84%N; 91%N; 98%N; 105%N; 112%N; 119%N;
    126%N; 133%N; 140%N; 147%N; 154%N; 161%N; 168%N; 175%N; 182%N; 189%N; 196%N; 203%N; 210%N; 217%N;
    224%N]); ("oracle_mutlisig_address"%string, PBytes [7%N; 14%N; 21%N; 28%N; 35%N; 42%N; 49%N; 56%N;
    63%N; 70%N; 77%N; 84%N; 91%N; 98%N; 105%N; 112%N; 119%N; 126%N; 133%N; 140%N; 147%N; 154%N; 161%N;
    168%N; 175%N; 182%N; 189%N; 196%N; 203%N; 210%N; 217%N; 224%N]);
    ("oracle_mutlisig_address_hex"%string, PHex [7%N; 14%N; 21%N; 28%N; 35%N; 42%N; 49%N; 56%N; 63%N;
    70%N; 77%N; 84%N; 91%N; 98%N; 105%N; 112%N; 119%N; 126%N; 133%N; 140%N; 147%N; 154%N; 161%N; 168%N;
    175%N; 182%N; 189%N; 196%N; 203%N; 210%N; 217%N; 224%N]); ("oracles"%string, PDict [(3, PInt
    156648); (10, PInt 156648); (11, PInt 156648)])].
Example C16_ConfigParam73_ex :
  wt spec_table spec_ConfigParam73 ex_ConfigParam73 /\
  match encode spec_table spec_ConfigParam73 ex_ConfigParam73 with
  | Ok (bits, refs) =>
      run_type impl_table 16 "ConfigParam73" [] (Cell (-1) (bits ++ [true; false]) (refs ++ [Cell (-1) [] []]))
      = Ok (ex_ConfigParam73, mkS [true; false] [Cell (-1) [] []])
  | Err _ => False
  end.
Proof. split; [wt_tac|vm_compute; reflexivity]. Qed.

(* ---- SuspendedAddressList ---- *)
Theorem C16_SuspendedAddressList : forall v tb tr bits refs fuel,
  wt spec_table spec_SuspendedAddressList v -> encode spec_table spec_SuspendedAddressList v = Ok (bits, refs) -> (24 <= fuel)%nat ->
  run_type impl_table fuel "SuspendedAddressList" [] (Cell (-1) (bits ++ tb) (refs ++ tr)) = Ok (v, mkS tb tr).
Proof. exact (C16_generic "SuspendedAddressList" spec_SuspendedAddressList 24 eq_refl eq_refl). Qed.
Print Assumptions C16_SuspendedAddressList.

Definition ex_SuspendedAddressList : pv :=
  PObj "SuspendedAddressList" [("addresses"%string, PDict [(3, PNone); (10, PNone); (11, PNone)]);
    ("suspended_until"%string, PInt 954413)].
Example C16_SuspendedAddressList_ex :
  wt spec_table spec_SuspendedAddressList ex_SuspendedAddressList /\
  match encode spec_table spec_SuspendedAddressList ex_SuspendedAddressList with
  | Ok (bits, refs) =>
      run_type impl_table 24 "SuspendedAddressList" [] (Cell (-1) (bits ++ [true; false]) (refs ++ [Cell (-1) [] []]))
      = Ok (ex_SuspendedAddressList, mkS [true; false] [Cell (-1) [] []])
  | Err _ => False
  end.
Proof. split; [wt_tac|vm_compute; reflexivity]. Qed.

(* ---- OracleBridgeParams ---- *)
Theorem C16_OracleBridgeParams : forall v tb tr bits refs fuel,
  wt spec_table spec_OracleBridgeParams v -> encode spec_table spec_OracleBridgeParams v = Ok (bits, refs) -> (11 <= fuel)%nat ->
  run_type impl_table fuel "OracleBridgeParams" [] (Cell (-1) (bits ++ tb) (refs ++ tr)) = Ok (v, mkS tb tr).
Proof. exact (C16_generic "OracleBridgeParams" spec_OracleBridgeParams 11 eq_refl eq_refl). Qed.
Print Assumptions C16_OracleBridgeParams.

Definition ex_OracleBridgeParams : pv :=
  PObj "OracleBridgeParams" [("bridge_address"%string, PBytes [7%N; 14%N; 21%N; 28%N; 35%N; 42%N; 49%N;
    56%N; 63%N; 70%N; 77%N; 84%N; 91%N; 98%N; 105%N; 112%N; 119%N; 126%N; 133%N; 140%N; 147%N; 154%N;
    161%N; 168%N; 175%N; 182%N; 189%N; 196%N; 203%N; 210%N; 217%N; 224%N]);
    ("bridge_address_hex"%string, PHex [7%N; 14%N; 21%N; 28%N; 35%N; 42%N; 49%N; 56%N; 63%N; 70%N; 77%N;
    84%N; 91%N; 98%N; 105%N; 112%N; 119%N; 126%N; 133%N; 140%N; 147%N; 154%N; 161%N; 168%N; 175%N;
    182%N; 189%N; 196%N; 203%N; 210%N; 217%N; 224%N]); ("external_chain_address_hex"%string, PHex [7%N;
    14%N; 21%N; 28%N; 35%N; 42%N; 49%N; 56%N; 63%N; 70%N; 77%N; 84%N; 91%N; 98%N; 105%N; 112%N; 119%N;
    126%N; 133%N; 140%N; 147%N; 154%N; 161%N; 168%N; 175%N; 182%N; 189%N; 196%N; 203%N; 210%N; 217%N;
    224%N]); ("oracle_mutlisig_address"%string, PBytes [7%N; 14%N; 21%N; 28%N; 35%N; 42%N; 49%N; 56%N;
    63%N; 70%N; 77%N; 84%N; 91%N; 98%N; 105%N; 112%N; 119%N; 126%N; 133%N; 140%N; 147%N; 154%N; 161%N;
    168%N; 175%N; 182%N; 189%N; 196%N; 203%N; 210%N; 217%N; 224%N]);
    ("oracle_mutlisig_address_hex"%string, PHex [7%N; 14%N; 21%N; 28%N; 35%N; 42%N; 49%N; 56%N; 63%N;
    70%N; 77%N; 84%N; 91%N; 98%N; 105%N; 112%N; 119%N; 126%N; 133%N; 140%N; 147%N; 154%N; 161%N; 168%N;
    175%N; 182%N; 189%N; 196%N; 203%N; 210%N; 217%N; 224%N]); ("oracles"%string, PDict [(3, PInt
    156648); (10, PInt 156648); (11, PInt 156648)])].
Example C16_OracleBridgeParams_ex :
  wt spec_table spec_OracleBridgeParams ex_OracleBridgeParams /\
  match encode spec_table spec_OracleBridgeParams ex_OracleBridgeParams with
  | Ok (bits, refs) =>
      run_type impl_table 11 "OracleBridgeParams" [] (Cell (-1) (bits ++ [true; false]) (refs ++ [Cell (-1) [] []]))
      = Ok (ex_OracleBridgeParams, mkS [true; false] [Cell (-1) [] []])
  | Err _ => False
  end.
Proof. split; [wt_tac|vm_compute; reflexivity]. Qed.

(* ---- WalletV3Data ---- *)
Theorem C16_WalletV3Data : forall v tb tr bits refs fuel,
  wt spec_table spec_WalletV3Data v -> encode spec_table spec_WalletV3Data v = Ok (bits, refs) -> (7 <= fuel)%nat ->
  run_type impl_table fuel "WalletV3Data" [] (Cell (-1) (bits ++ tb) (refs ++ tr)) = Ok (v, mkS tb tr).
Proof. exact (C16_generic "WalletV3Data" spec_WalletV3Data 7 eq_refl eq_refl). Qed.
Print Assumptions C16_WalletV3Data.

Definition ex_WalletV3Data : pv :=
  PObj "WalletV3Data" [("public_key"%string, PBytes [7%N; 14%N; 21%N; 28%N; 35%N; 42%N; 49%N; 56%N;
    63%N; 70%N; 77%N; 84%N; 91%N; 98%N; 105%N; 112%N; 119%N; 126%N; 133%N; 140%N; 147%N; 154%N; 161%N;
    168%N; 175%N; 182%N; 189%N; 196%N; 203%N; 210%N; 217%N; 224%N]); ("seqno"%string, PInt 954413);
    ("wallet_id"%string, PInt 954413)].
Example C16_WalletV3Data_ex :
  wt spec_table spec_WalletV3Data ex_WalletV3Data /\
  match encode spec_table spec_WalletV3Data ex_WalletV3Data with
  | Ok (bits, refs) =>
      run_type impl_table 7 "WalletV3Data" [] (Cell (-1) (bits ++ [true; false]) (refs ++ [Cell (-1) [] []]))
      = Ok (ex_WalletV3Data, mkS [true; false] [Cell (-1) [] []])
  | Err _ => False
  end.
Proof. split; [wt_tac|vm_compute; reflexivity]. Qed.

(* ---- WalletV4Data ---- *)
Theorem C16_WalletV4Data : forall v tb tr bits refs fuel,
  wt spec_table spec_WalletV4Data v -> encode spec_table spec_WalletV4Data v = Ok (bits, refs) -> (9 <= fuel)%nat ->
  run_type impl_table fuel "WalletV4Data" [] (Cell (-1) (bits ++ tb) (refs ++ tr)) = Ok (v, mkS tb tr).
Proof. exact (C16_generic "WalletV4Data" spec_WalletV4Data 9 eq_refl eq_refl). Qed.
Print Assumptions C16_WalletV4Data.

Definition ex_WalletV4Data : pv :=
  PObj "WalletV4Data" [("plugins"%string, PCell (Cell (-1) [true; false; true] []));
    ("public_key"%string, PBytes [7%N; 14%N; 21%N; 28%N; 35%N; 42%N; 49%N; 56%N; 63%N; 70%N; 77%N; 84%N;
    91%N; 98%N; 105%N; 112%N; 119%N; 126%N; 133%N; 140%N; 147%N; 154%N; 161%N; 168%N; 175%N; 182%N;
    189%N; 196%N; 203%N; 210%N; 217%N; 224%N]); ("seqno"%string, PInt 954413); ("wallet_id"%string, PInt
    954413)].
Example C16_WalletV4Data_ex :
  wt spec_table spec_WalletV4Data ex_WalletV4Data /\
  match encode spec_table spec_WalletV4Data ex_WalletV4Data with
  | Ok (bits, refs) =>
      run_type impl_table 9 "WalletV4Data" [] (Cell (-1) (bits ++ [true; false]) (refs ++ [Cell (-1) [] []]))
      = Ok (ex_WalletV4Data, mkS [true; false] [Cell (-1) [] []])
  | Err _ => False
  end.
Proof. split; [wt_tac|vm_compute; reflexivity]. Qed.

(* ---- NftItemData ---- *)
Theorem C16_NftItemData : forall v tb tr bits refs fuel,
  wt spec_table spec_NftItemData v -> encode spec_table spec_NftItemData v = Ok (bits, refs) -> (8 <= fuel)%nat ->
  run_type impl_table fuel "NftItemData" [] (Cell (-1) (bits ++ tb) (refs ++ tr)) = Ok (v, mkS tb tr).
Proof. exact (C16_generic "NftItemData" spec_NftItemData 8 eq_refl eq_refl). Qed.
Print Assumptions C16_NftItemData.

Definition ex_NftItemData : pv :=
  PObj "NftItemData" [("collection_address"%string, PAddr (AddrStd None 0 [7%N; 14%N; 21%N; 28%N; 35%N;
    42%N; 49%N; 56%N; 63%N; 70%N; 77%N; 84%N; 91%N; 98%N; 105%N; 112%N; 119%N; 126%N; 133%N; 140%N;
    147%N; 154%N; 161%N; 168%N; 175%N; 182%N; 189%N; 196%N; 203%N; 210%N; 217%N; 224%N]));
    ("content"%string, PCell (Cell (-1) [true; false; true] [])); ("index"%string, PInt 350686);
    ("owner_address"%string, PAddr (AddrStd None 0 [7%N; 14%N; 21%N; 28%N; 35%N; 42%N; 49%N; 56%N; 63%N;
    70%N; 77%N; 84%N; 91%N; 98%N; 105%N; 112%N; 119%N; 126%N; 133%N; 140%N; 147%N; 154%N; 161%N; 168%N;
    175%N; 182%N; 189%N; 196%N; 203%N; 210%N; 217%N; 224%N]))].
Example C16_NftItemData_ex :
  wt spec_table spec_NftItemData ex_NftItemData /\
  match encode spec_table spec_NftItemData ex_NftItemData with
  | Ok (bits, refs) =>
      run_type impl_table 8 "NftItemData" [] (Cell (-1) (bits ++ [true; false]) (refs ++ [Cell (-1) [] []]))
      = Ok (ex_NftItemData, mkS [true; false] [Cell (-1) [] []])
  | Err _ => False
  end.
Proof. split; [wt_tac|vm_compute; reflexivity]. Qed.

(* ---- NftItemSaleFees ---- *)
Theorem C16_NftItemSaleFees : forall v tb tr bits refs fuel,
  wt spec_table spec_NftItemSaleFees v -> encode spec_table spec_NftItemSaleFees v = Ok (bits, refs) -> (8 <= fuel)%nat ->
  run_type impl_table fuel "NftItemSaleFees" [] (Cell (-1) (bits ++ tb) (refs ++ tr)) = Ok (v, mkS tb tr).
Proof. exact (C16_generic "NftItemSaleFees" spec_NftItemSaleFees 8 eq_refl eq_refl). Qed.
Print Assumptions C16_NftItemSaleFees.

Definition ex_NftItemSaleFees : pv :=
  PObj "NftItemSaleFees" [("marketplace_fee"%string, PInt 1000000007);
    ("marketplace_fee_address"%string, PAddr (AddrStd None 0 [7%N; 14%N; 21%N; 28%N; 35%N; 42%N; 49%N;
    56%N; 63%N; 70%N; 77%N; 84%N; 91%N; 98%N; 105%N; 112%N; 119%N; 126%N; 133%N; 140%N; 147%N; 154%N;
    161%N; 168%N; 175%N; 182%N; 189%N; 196%N; 203%N; 210%N; 217%N; 224%N])); ("royalty_address"%string,
    PAddr (AddrStd None 0 [7%N; 14%N; 21%N; 28%N; 35%N; 42%N; 49%N; 56%N; 63%N; 70%N; 77%N; 84%N; 91%N;
    98%N; 105%N; 112%N; 119%N; 126%N; 133%N; 140%N; 147%N; 154%N; 161%N; 168%N; 175%N; 182%N; 189%N;
    196%N; 203%N; 210%N; 217%N; 224%N])); ("royalty_amount"%string, PInt 1000000007)].
Example C16_NftItemSaleFees_ex :
  wt spec_table spec_NftItemSaleFees ex_NftItemSaleFees /\
  match encode spec_table spec_NftItemSaleFees ex_NftItemSaleFees with
  | Ok (bits, refs) =>
      run_type impl_table 8 "NftItemSaleFees" [] (Cell (-1) (bits ++ [true; false]) (refs ++ [Cell (-1) [] []]))
      = Ok (ex_NftItemSaleFees, mkS [true; false] [Cell (-1) [] []])
  | Err _ => False
  end.
Proof. split; [wt_tac|vm_compute; reflexivity]. Qed.

(* ---- NftItemSaleData ---- *)
Theorem C16_NftItemSaleData : forall v tb tr bits refs fuel,
  wt spec_table spec_NftItemSaleData v -> encode spec_table spec_NftItemSaleData v = Ok (bits, refs) -> (21 <= fuel)%nat ->
  run_type impl_table fuel "NftItemSaleData" [] (Cell (-1) (bits ++ tb) (refs ++ tr)) = Ok (v, mkS tb tr).
Proof. exact (C16_generic "NftItemSaleData" spec_NftItemSaleData 21 eq_refl eq_refl). Qed.
Print Assumptions C16_NftItemSaleData.

Definition ex_NftItemSaleData : pv :=
  PObj "NftItemSaleData" [("can_deploy_by_external"%string, PBool true); ("created_at"%string, PInt
    954413); ("fees_cell"%string, PObj "NftItemSaleFees" [("marketplace_fee"%string, PInt 1000000007);
    ("marketplace_fee_address"%string, PAddr (AddrStd None 0 [7%N; 14%N; 21%N; 28%N; 35%N; 42%N; 49%N;
    56%N; 63%N; 70%N; 77%N; 84%N; 91%N; 98%N; 105%N; 112%N; 119%N; 126%N; 133%N; 140%N; 147%N; 154%N;
    161%N; 168%N; 175%N; 182%N; 189%N; 196%N; 203%N; 210%N; 217%N; 224%N])); ("royalty_address"%string,
    PAddr (AddrStd None 0 [7%N; 14%N; 21%N; 28%N; 35%N; 42%N; 49%N; 56%N; 63%N; 70%N; 77%N; 84%N; 91%N;
    98%N; 105%N; 112%N; 119%N; 126%N; 133%N; 140%N; 147%N; 154%N; 161%N; 168%N; 175%N; 182%N; 189%N;
    196%N; 203%N; 210%N; 217%N; 224%N])); ("royalty_amount"%string, PInt 1000000007)]);
    ("full_price"%string, PInt 1000000007); ("is_complete"%string, PBool true);
    ("marketplace_address"%string, PAddr (AddrStd None 0 [7%N; 14%N; 21%N; 28%N; 35%N; 42%N; 49%N; 56%N;
    63%N; 70%N; 77%N; 84%N; 91%N; 98%N; 105%N; 112%N; 119%N; 126%N; 133%N; 140%N; 147%N; 154%N; 161%N;
    168%N; 175%N; 182%N; 189%N; 196%N; 203%N; 210%N; 217%N; 224%N])); ("nft_address"%string, PAddr
    (AddrStd None 0 [7%N; 14%N; 21%N; 28%N; 35%N; 42%N; 49%N; 56%N; 63%N; 70%N; 77%N; 84%N; 91%N; 98%N;
    105%N; 112%N; 119%N; 126%N; 133%N; 140%N; 147%N; 154%N; 161%N; 168%N; 175%N; 182%N; 189%N; 196%N;
    203%N; 210%N; 217%N; 224%N])); ("nft_owner_address"%string, PAddr (AddrStd None 0 [7%N; 14%N; 21%N;
    28%N; 35%N; 42%N; 49%N; 56%N; 63%N; 70%N; 77%N; 84%N; 91%N; 98%N; 105%N; 112%N; 119%N; 126%N; 133%N;
    140%N; 147%N; 154%N; 161%N; 168%N; 175%N; 182%N; 189%N; 196%N; 203%N; 210%N; 217%N; 224%N]))].
Example C16_NftItemSaleData_ex :
  wt spec_table spec_NftItemSaleData ex_NftItemSaleData /\
  match encode spec_table spec_NftItemSaleData ex_NftItemSaleData with
  | Ok (bits, refs) =>
      run_type impl_table 21 "NftItemSaleData" [] (Cell (-1) (bits ++ [true; false]) (refs ++ [Cell (-1) [] []]))
      = Ok (ex_NftItemSaleData, mkS [true; false] [Cell (-1) [] []])
  | Err _ => False
  end.
Proof. split; [wt_tac|vm_compute; reflexivity]. Qed.

(* ================================================================================================ *)
(* Types with a snapshot of their cell, inline dictionaries, dispatch on a tag, Either / Any fields   *)
(*                                                                                                    *)
(* Shape of the theorems below.  ch : pv -> bool tells, for every value stored in an `Either X Y`     *)
(* field, which alternative the encoder uses (the Python object does not record it): the theorems     *)
(* hold for EVERY such choice.  wt_in ch spec_table L cx v: v is a value of the layout, cx being what *)
(* v knows of what follows it in its cell: None (nothing: v has neither an inline `Any` field nor a   *)
(* snapshot at top level), or Some (tb, tr) (exactly the bits tb and references tr: an inline body IS *)
(* the cell (tb, tr); the snapshot attribute `cell` IS the cell parsed).  All cells are ordinary.     *)
(* ================================================================================================ *)

(* the fuel bound of a layout, checked by vm_compute (the default conversion is slow on the recursive types) *)
Local Ltac need_tac := vm_compute; reflexivity.
Lemma need_TransactionDescr : (need spec_table spec_TransactionDescr <=? 1441)%nat = true. Proof. need_tac. Qed.
Print Assumptions need_TransactionDescr.
Lemma need_Transaction : (need spec_table spec_Transaction <=? 1569)%nat = true. Proof. need_tac. Qed.
Print Assumptions need_Transaction.
Lemma need_TransactionSplitInstall : (need spec_table spec_TransactionSplitInstall <=? 1432)%nat = true. Proof. need_tac. Qed.
Print Assumptions need_TransactionSplitInstall.
Lemma need_TransactionMergeInstall : (need spec_table spec_TransactionMergeInstall <=? 1545)%nat = true. Proof. need_tac. Qed.
Print Assumptions need_TransactionMergeInstall.
Lemma need_InMsg : (need spec_table spec_InMsg <=? 1578)%nat = true. Proof. need_tac. Qed.
Print Assumptions need_InMsg.
Lemma need_AccountBlock : (need spec_table spec_AccountBlock <=? 1473)%nat = true. Proof. need_tac. Qed.
Print Assumptions need_AccountBlock.
Lemma need_OutMsg : (need spec_table spec_OutMsg <=? 3039)%nat = true. Proof. need_tac. Qed.
Print Assumptions need_OutMsg.

Definition ex_tail_bits : list bool := [true; false].
Definition ex_tail_refs : list cell := [Cell (-1) [] []].
(* fill in the snapshot attribute of a value built by mk: the encoding does not depend on it *)
Definition with_cell (ch : pv -> bool) (L : tlayout) (mk : cell -> pv) (tb : list bool) (tr : list cell) : pv :=
  match encode_ch ch spec_table L (mk (Cell (-1) [] [])) with
  | Ok (b, r) => mk (Cell (-1) (b ++ tb) (r ++ tr))
  | Err _ => PNone
  end.
Definition bytes32 : list N :=
  [7%N; 14%N; 21%N; 28%N; 35%N; 42%N; 49%N; 56%N; 63%N; 70%N; 77%N; 84%N; 91%N; 98%N; 105%N; 112%N; 119%N;
   126%N; 133%N; 140%N; 147%N; 154%N; 161%N; 168%N; 175%N; 182%N; 189%N; 196%N; 203%N; 210%N; 217%N; 224%N].

(* ---- ShardAccount ---- *)
Theorem C16_ShardAccount : forall ch v tb tr bits refs fuel,
  wt_in ch spec_table spec_ShardAccount (Some (tb, tr)) v ->
  encode_ch ch spec_table spec_ShardAccount v = Ok (bits, refs) -> (89 <= fuel)%nat ->
  run_type impl_table fuel "ShardAccount" [] (Cell (-1) (bits ++ tb) (refs ++ tr)) = Ok (v, mkS tb tr).
Proof.
  intros ch v tb tr bits refs fuel Hwt Henc Hfuel.
  exact (C16_generic_ch "ShardAccount" spec_ShardAccount 89 eq_refl eq_refl ch (Some (tb, tr)) v tb tr bits refs fuel
           Hwt Henc eq_refl Hfuel).
Qed.
Print Assumptions C16_ShardAccount.
(* ... and the attribute `cell` of such a value is the cell it was parsed from *)
Corollary C16_ShardAccount_cell : forall ch v tb tr bits refs,
  wt_in ch spec_table spec_ShardAccount (Some (tb, tr)) v ->
  encode_ch ch spec_table spec_ShardAccount v = Ok (bits, refs) ->
  field_of v "cell" = PCell (Cell (-1) (bits ++ tb) (refs ++ tr)).
Proof. intros ch v tb tr bits refs. exact (wt_snapshot ch spec_table spec_ShardAccount tb tr v "cell" bits refs eq_refl). Qed.
Print Assumptions C16_ShardAccount_cell.

Definition mk_ShardAccount (c : cell) : pv :=
  PObj "ShardAccount" [("account"%string, ex_Account); ("cell"%string, PCell c);
    ("last_trans_hash"%string, PBytes bytes32); ("last_trans_lt"%string, PInt 350686)].
Definition ex_ShardAccount : pv :=
  Eval vm_compute in with_cell ch_ref spec_ShardAccount mk_ShardAccount ex_tail_bits ex_tail_refs.
Example C16_ShardAccount_ex :
  wt_in ch_ref spec_table spec_ShardAccount (Some (ex_tail_bits, ex_tail_refs)) ex_ShardAccount /\
  match encode_ch ch_ref spec_table spec_ShardAccount ex_ShardAccount with
  | Ok (bits, refs) =>
      run_type impl_table 89 "ShardAccount" [] (Cell (-1) (bits ++ ex_tail_bits) (refs ++ ex_tail_refs))
      = Ok (ex_ShardAccount, mkS ex_tail_bits ex_tail_refs)
      /\ field_of ex_ShardAccount "cell" = PCell (Cell (-1) (bits ++ ex_tail_bits) (refs ++ ex_tail_refs))
  | Err _ => False
  end.
Proof. split; [wt_tac|vm_compute; split; reflexivity]. Qed.

(* ---- ValidatorSet (validators#11 with its inline Hashmap, validators_ext#12) ---- *)
Theorem C16_ValidatorSet : forall v tb tr bits refs fuel,
  wt spec_table spec_ValidatorSet v -> encode spec_table spec_ValidatorSet v = Ok (bits, refs) -> (123 <= fuel)%nat ->
  run_type impl_table fuel "ValidatorSet" [] (Cell (-1) (bits ++ tb) (refs ++ tr)) = Ok (v, mkS tb tr).
Proof. exact (C16_generic "ValidatorSet" spec_ValidatorSet 123 eq_refl eq_refl). Qed.
Print Assumptions C16_ValidatorSet.

Definition ex_ValidatorDescr_plain : pv :=
  PObj "ValidatorDescr" [("adnl_addr"%string, PNone); ("public_key"%string, PObj "SigPubKey"
    [("pubkey"%string, PBytes bytes32)]); ("type_"%string, PStr "validator"); ("weight"%string, PInt 17)].
(* validators_ext#12: three validators behind a HashmapE *)
Definition ex_ValidatorSet : pv :=
  PObj "ValidatorSet" [("list"%string, PDict [(0, ex_ValidatorDescr); (1, ex_ValidatorDescr_plain); (2, ex_ValidatorDescr)]);
    ("main"%string, PInt 2); ("total"%string, PInt 3); ("total_weight"%string, PInt 701389);
    ("type_"%string, PStr "validators_ext"); ("utime_since"%string, PInt 954413); ("utime_until"%string, PInt 954513)].
(* validators#11: the Hashmap inline, with a fork at the root *)
Definition ex_ValidatorSet_11 : pv :=
  PObj "ValidatorSet" [("list"%string, PDict [(0, ex_ValidatorDescr); (1, ex_ValidatorDescr_plain); (2, ex_ValidatorDescr)]);
    ("main"%string, PInt 2); ("total"%string, PInt 3); ("total_weight"%string, PNone);
    ("type_"%string, PStr "validators"); ("utime_since"%string, PInt 954413); ("utime_until"%string, PInt 954513)].
(* validators#11 with one validator: the root is a leaf, the value goes on in the same cell *)
Definition ex_ValidatorSet_11_single : pv :=
  PObj "ValidatorSet" [("list"%string, PDict [(0, ex_ValidatorDescr)]);
    ("main"%string, PInt 1); ("total"%string, PInt 1); ("total_weight"%string, PNone);
    ("type_"%string, PStr "validators"); ("utime_since"%string, PInt 954413); ("utime_until"%string, PInt 954513)].
Example C16_ValidatorSet_ex :
  (wt spec_table spec_ValidatorSet ex_ValidatorSet /\
   match encode spec_table spec_ValidatorSet ex_ValidatorSet with
   | Ok (bits, refs) =>
       run_type impl_table 123 "ValidatorSet" [] (Cell (-1) (bits ++ [true; false]) (refs ++ [Cell (-1) [] []]))
       = Ok (ex_ValidatorSet, mkS [true; false] [Cell (-1) [] []])
   | Err _ => False
   end) /\
  (wt spec_table spec_ValidatorSet ex_ValidatorSet_11 /\
   match encode spec_table spec_ValidatorSet ex_ValidatorSet_11 with
   | Ok (bits, refs) =>
       run_type impl_table 123 "ValidatorSet" [] (Cell (-1) (bits ++ [true; false]) (refs ++ [Cell (-1) [] []]))
       = Ok (ex_ValidatorSet_11, mkS [true; false] [Cell (-1) [] []])
   | Err _ => False
   end) /\
  (wt spec_table spec_ValidatorSet ex_ValidatorSet_11_single /\
   match encode spec_table spec_ValidatorSet ex_ValidatorSet_11_single with
   | Ok (bits, refs) =>
       run_type impl_table 123 "ValidatorSet" [] (Cell (-1) (bits ++ [true; false]) (refs ++ [Cell (-1) [] []]))
       = Ok (ex_ValidatorSet_11_single, mkS [true; false] [Cell (-1) [] []])
   | Err _ => False
   end).
Proof. split; [split; [wt_tac|vm_compute; reflexivity]|split; split; [wt_tac|vm_compute; reflexivity|wt_tac|vm_compute; reflexivity]]. Qed.

(* ---- ConfigParam32 .. ConfigParam37 (wrappers of ValidatorSet) ---- *)
Theorem C16_ConfigParam32 : forall v tb tr bits refs fuel,
  wt spec_table spec_ConfigParam32 v -> encode spec_table spec_ConfigParam32 v = Ok (bits, refs) -> (128 <= fuel)%nat ->
  run_type impl_table fuel "ConfigParam32" [] (Cell (-1) (bits ++ tb) (refs ++ tr)) = Ok (v, mkS tb tr).
Proof. exact (C16_generic "ConfigParam32" spec_ConfigParam32 128 eq_refl eq_refl). Qed.
Theorem C16_ConfigParam33 : forall v tb tr bits refs fuel,
  wt spec_table spec_ConfigParam33 v -> encode spec_table spec_ConfigParam33 v = Ok (bits, refs) -> (128 <= fuel)%nat ->
  run_type impl_table fuel "ConfigParam33" [] (Cell (-1) (bits ++ tb) (refs ++ tr)) = Ok (v, mkS tb tr).
Proof. exact (C16_generic "ConfigParam33" spec_ConfigParam33 128 eq_refl eq_refl). Qed.
Theorem C16_ConfigParam34 : forall v tb tr bits refs fuel,
  wt spec_table spec_ConfigParam34 v -> encode spec_table spec_ConfigParam34 v = Ok (bits, refs) -> (128 <= fuel)%nat ->
  run_type impl_table fuel "ConfigParam34" [] (Cell (-1) (bits ++ tb) (refs ++ tr)) = Ok (v, mkS tb tr).
Proof. exact (C16_generic "ConfigParam34" spec_ConfigParam34 128 eq_refl eq_refl). Qed.
Theorem C16_ConfigParam35 : forall v tb tr bits refs fuel,
  wt spec_table spec_ConfigParam35 v -> encode spec_table spec_ConfigParam35 v = Ok (bits, refs) -> (128 <= fuel)%nat ->
  run_type impl_table fuel "ConfigParam35" [] (Cell (-1) (bits ++ tb) (refs ++ tr)) = Ok (v, mkS tb tr).
Proof. exact (C16_generic "ConfigParam35" spec_ConfigParam35 128 eq_refl eq_refl). Qed.
Theorem C16_ConfigParam36 : forall v tb tr bits refs fuel,
  wt spec_table spec_ConfigParam36 v -> encode spec_table spec_ConfigParam36 v = Ok (bits, refs) -> (128 <= fuel)%nat ->
  run_type impl_table fuel "ConfigParam36" [] (Cell (-1) (bits ++ tb) (refs ++ tr)) = Ok (v, mkS tb tr).
Proof. exact (C16_generic "ConfigParam36" spec_ConfigParam36 128 eq_refl eq_refl). Qed.
Theorem C16_ConfigParam37 : forall v tb tr bits refs fuel,
  wt spec_table spec_ConfigParam37 v -> encode spec_table spec_ConfigParam37 v = Ok (bits, refs) -> (128 <= fuel)%nat ->
  run_type impl_table fuel "ConfigParam37" [] (Cell (-1) (bits ++ tb) (refs ++ tr)) = Ok (v, mkS tb tr).
Proof. exact (C16_generic "ConfigParam37" spec_ConfigParam37 128 eq_refl eq_refl). Qed.
Print Assumptions C16_ConfigParam32.
Print Assumptions C16_ConfigParam33.
Print Assumptions C16_ConfigParam34.
Print Assumptions C16_ConfigParam35.
Print Assumptions C16_ConfigParam36.
Print Assumptions C16_ConfigParam37.

Definition ex_ConfigParam34 : pv := PObj "ConfigParam34" [("cur_validators"%string, ex_ValidatorSet)].
Example C16_ConfigParam34_ex :
  wt spec_table spec_ConfigParam34 ex_ConfigParam34 /\
  match encode spec_table spec_ConfigParam34 ex_ConfigParam34 with
  | Ok (bits, refs) =>
      run_type impl_table 128 "ConfigParam34" [] (Cell (-1) (bits ++ [true; false]) (refs ++ [Cell (-1) [] []]))
      = Ok (ex_ConfigParam34, mkS [true; false] [Cell (-1) [] []])
  | Err _ => False
  end.
Proof. split; [wt_tac|vm_compute; reflexivity]. Qed.

(* ---- TransactionDescr (dispatch on the tag; the seven kinds) ---- *)
Theorem C16_TransactionDescr : forall ch v tb tr bits refs fuel,
  wt_in ch spec_table spec_TransactionDescr None v ->
  encode_ch ch spec_table spec_TransactionDescr v = Ok (bits, refs) -> (1441 <= fuel)%nat ->
  run_type impl_table fuel "TransactionDescr" [] (Cell (-1) (bits ++ tb) (refs ++ tr)) = Ok (v, mkS tb tr).
Proof.
  intros ch v tb tr bits refs fuel Hwt Henc Hfuel.
  exact (C16_generic_ch "TransactionDescr" spec_TransactionDescr 1441 eq_refl need_TransactionDescr ch None v tb tr bits refs fuel
           Hwt Henc I Hfuel).
Qed.
Print Assumptions C16_TransactionDescr.

(* one value of each kind that does not embed a transaction (those that do: after Transaction below) *)
Example C16_TransactionDescr_ex :
  Forall (fun v =>
    wt_in ch_ref spec_table spec_TransactionDescr None v /\
    match encode_ch ch_ref spec_table spec_TransactionDescr v with
    | Ok (bits, refs) =>
        run_type impl_table 1441 "TransactionDescr" [] (Cell (-1) (bits ++ [true; false]) (refs ++ [Cell (-1) [] []]))
        = Ok (v, mkS [true; false] [Cell (-1) [] []])
    | Err _ => False
    end)
    [ex_TransactionOrdinary; ex_TransactionStorage; ex_TransactionTickTock; ex_TransactionSplitPrepare;
     ex_TransactionMergePrepare].
Proof. repeat (apply Forall_cons; [split; [wt_tac|vm_compute; reflexivity]|]). apply Forall_nil. Qed.

(* ---- ValueFlow (both tags; the references in field order: ^[group 1], those of fees_collected and of
   burned, ^[group 2]).  The library used to load both group references first (FINDING, repaired). ---- *)
Theorem C16_ValueFlow : forall v tb tr bits refs fuel,
  wt spec_table spec_ValueFlow v -> encode spec_table spec_ValueFlow v = Ok (bits, refs) -> (221 <= fuel)%nat ->
  run_type impl_table fuel "ValueFlow" [] (Cell (-1) (bits ++ tb) (refs ++ tr)) = Ok (v, mkS tb tr).
Proof. exact (C16_generic "ValueFlow" spec_ValueFlow 221 eq_refl eq_refl). Qed.
Print Assumptions C16_ValueFlow.

Definition ex_cc (g : Z) : pv :=
  PObj "CurrencyCollection" [("grams"%string, PInt g); ("other"%string, PObj "ExtraCurrencyCollection"
    [("dict"%string, PNone)])].
Definition ex_cc_extra (g : Z) : pv :=
  PObj "CurrencyCollection" [("grams"%string, PInt g); ("other"%string, PObj "ExtraCurrencyCollection"
    [("dict"%string, PDict [(1, PInt 7)])])].
Definition mk_ValueFlow (fees : pv) : pv :=
  PObj "ValueFlow" [("created"%string, ex_cc_extra 8); ("exported"%string, ex_cc 4); ("fees_collected"%string, fees);
    ("fees_imported"%string, ex_cc 6); ("from_prev_blk"%string, ex_cc_extra 1); ("imported"%string, ex_cc 3);
    ("minted"%string, ex_cc 9); ("recovered"%string, ex_cc 7); ("to_next_blk"%string, ex_cc 2);
    ("type_"%string, PStr "value_flow")].
Definition mk_ValueFlow_v2 (fees burned : pv) : pv :=
  PObj "ValueFlow" [("burned"%string, burned); ("created"%string, ex_cc 8); ("exported"%string, ex_cc_extra 4);
    ("fees_collected"%string, fees);
    ("fees_imported"%string, ex_cc 6); ("from_prev_blk"%string, ex_cc 1); ("imported"%string, ex_cc 3);
    ("minted"%string, ex_cc_extra 9); ("recovered"%string, ex_cc 7); ("to_next_blk"%string, ex_cc 2);
    ("type_"%string, PStr "value_flow_v2")].
(* the first two values have extra currencies in fees_collected, respectively in burned: the dictionary root is
   then the SECOND reference of the cell (three references in all); these are the encodings on which the
   library used to raise IndexError *)
Example C16_ValueFlow_ex :
  Forall (fun v =>
    wt spec_table spec_ValueFlow v /\
    match encode spec_table spec_ValueFlow v with
    | Ok (bits, refs) =>
        run_type impl_table 221 "ValueFlow" [] (Cell (-1) (bits ++ [true; false]) (refs ++ [Cell (-1) [] []]))
        = Ok (v, mkS [true; false] [Cell (-1) [] []])
    | Err _ => False
    end)
    [mk_ValueFlow (ex_cc_extra 5); mk_ValueFlow_v2 (ex_cc 5) (ex_cc_extra 6);
     mk_ValueFlow_v2 (ex_cc_extra 5) (ex_cc_extra 6); mk_ValueFlow (ex_cc 5)].
Proof. repeat (apply Forall_cons; [split; [wt_tac|vm_compute; reflexivity]|]). apply Forall_nil. Qed.
Example C16_ValueFlow_ex_refs :
  match encode spec_table spec_ValueFlow (mk_ValueFlow (ex_cc_extra 5)) with
  | Ok (_, refs) => List.length refs = 3%nat
  | Err _ => False
  end.
Proof. vm_compute. reflexivity. Qed.

(* an exotic (e.g. pruned) cell: ValueFlow.deserialize returns None and reads nothing *)
Theorem C16_ValueFlow_exotic : forall ty bits refs fuel, ty <> (-1) -> (4 <= fuel)%nat ->
  run_type impl_table fuel "ValueFlow" [] (Cell ty bits refs) = Ok (PNone, mkS bits refs).
Proof. intros ty bits refs fuel. exact (run_type_exotic "ValueFlow" spec_ValueFlow ty bits refs fuel eq_refl). Qed.
Print Assumptions C16_ValueFlow_exotic.

(* ---- CommonMsgInfo (the tag is only looked at; the three kinds) ---- *)
Theorem C16_CommonMsgInfo : forall v tb tr bits refs fuel,
  wt spec_table spec_CommonMsgInfo v -> encode spec_table spec_CommonMsgInfo v = Ok (bits, refs) -> (44 <= fuel)%nat ->
  run_type impl_table fuel "CommonMsgInfo" [] (Cell (-1) (bits ++ tb) (refs ++ tr)) = Ok (v, mkS tb tr).
Proof. exact (C16_generic "CommonMsgInfo" spec_CommonMsgInfo 44 eq_refl eq_refl). Qed.
Print Assumptions C16_CommonMsgInfo.

Example C16_CommonMsgInfo_ex :
  Forall (fun v =>
    wt spec_table spec_CommonMsgInfo v /\
    match encode spec_table spec_CommonMsgInfo v with
    | Ok (bits, refs) =>
        run_type impl_table 44 "CommonMsgInfo" [] (Cell (-1) (bits ++ [true; false]) (refs ++ [Cell (-1) [] []]))
        = Ok (v, mkS [true; false] [Cell (-1) [] []])
    | Err _ => False
    end)
    [ex_InternalMsgInfo; ex_ExternalMsgInfo; ex_ExternalOutMsgInfo].
Proof. repeat (apply Forall_cons; [split; [wt_tac|vm_compute; reflexivity]|]). apply Forall_nil. Qed.

(* ---- MessageAny = Message Any ---- *)
(* For every choice ch of the Either alternatives (init inline or ^StateInit, body inline or ^Cell).  A
   body stored inline is of type Any: it is what follows the header, so the value's `body` is the cell
   (tb, tr) and cx = Some (tb, tr); with the body in a reference, anything may follow (cx = None or Some). *)
Theorem C16_MessageAny : forall ch cx v tb tr bits refs fuel,
  wt_in ch spec_table spec_MessageAny cx v -> encode_ch ch spec_table spec_MessageAny v = Ok (bits, refs) ->
  ctx_ok cx tb tr -> (83 <= fuel)%nat ->
  run_type impl_table fuel "MessageAny" [] (Cell (-1) (bits ++ tb) (refs ++ tr)) = Ok (v, mkS tb tr).
Proof. exact (C16_generic_ch "MessageAny" spec_MessageAny 83 eq_refl eq_refl). Qed.
Print Assumptions C16_MessageAny.

(* which alternative: cells whose data begins with a 1 inline, the other cells and the StateInit objects
   in a reference *)
Definition ch_mix (x : pv) : bool :=
  match x with PCell (Cell _ (true :: _) _) => false | _ => true end.
Definition ch_inline : pv -> bool := fun _ => false.

(* everything inline: the body is the tail of the cell *)
Definition ex_MessageAny_inline : pv :=
  PObj "MessageAny" [("body"%string, PCell (Cell (-1) ex_tail_bits ex_tail_refs)); ("info"%string, ex_InternalMsgInfo);
    ("init"%string, ex_StateInit)].
(* everything in references, no tail known *)
Definition ex_MessageAny_refs : pv :=
  PObj "MessageAny" [("body"%string, PCell (Cell (-1) [false; true; true] [Cell (-1) [true] []]));
    ("info"%string, ex_ExternalMsgInfo); ("init"%string, ex_StateInit)].
(* no init, body in a reference *)
Definition ex_MessageAny_out : pv :=
  PObj "MessageAny" [("body"%string, PCell (Cell (-1) [false; true] [])); ("info"%string, ex_ExternalOutMsgInfo);
    ("init"%string, PNone)].
Example C16_MessageAny_ex :
  (wt_in ch_inline spec_table spec_MessageAny (Some (ex_tail_bits, ex_tail_refs)) ex_MessageAny_inline /\
   match encode_ch ch_inline spec_table spec_MessageAny ex_MessageAny_inline with
   | Ok (bits, refs) =>
       run_type impl_table 83 "MessageAny" [] (Cell (-1) (bits ++ ex_tail_bits) (refs ++ ex_tail_refs))
       = Ok (ex_MessageAny_inline, mkS ex_tail_bits ex_tail_refs)
   | Err _ => False
   end) /\
  (wt_in ch_ref spec_table spec_MessageAny None ex_MessageAny_refs /\
   match encode_ch ch_ref spec_table spec_MessageAny ex_MessageAny_refs with
   | Ok (bits, refs) =>
       run_type impl_table 83 "MessageAny" [] (Cell (-1) (bits ++ ex_tail_bits) (refs ++ ex_tail_refs))
       = Ok (ex_MessageAny_refs, mkS ex_tail_bits ex_tail_refs)
   | Err _ => False
   end) /\
  (wt_in ch_mix spec_table spec_MessageAny None ex_MessageAny_out /\
   match encode_ch ch_mix spec_table spec_MessageAny ex_MessageAny_out with
   | Ok (bits, refs) =>
       run_type impl_table 83 "MessageAny" [] (Cell (-1) (bits ++ ex_tail_bits) (refs ++ ex_tail_refs))
       = Ok (ex_MessageAny_out, mkS ex_tail_bits ex_tail_refs)
   | Err _ => False
   end).
Proof. split; [split; [wt_tac|vm_compute; reflexivity]|split; split; [wt_tac|vm_compute; reflexivity|wt_tac|vm_compute; reflexivity]]. Qed.

(* ---- MsgEnvelope (msg:^(Message Any): the cell of the message ends with its inline body) ---- *)
Theorem C16_MsgEnvelope : forall ch v tb tr bits refs fuel,
  wt_in ch spec_table spec_MsgEnvelope None v -> encode_ch ch spec_table spec_MsgEnvelope v = Ok (bits, refs) ->
  (141 <= fuel)%nat ->
  run_type impl_table fuel "MsgEnvelope" [] (Cell (-1) (bits ++ tb) (refs ++ tr)) = Ok (v, mkS tb tr).
Proof.
  intros ch v tb tr bits refs fuel Hwt Henc Hfuel.
  exact (C16_generic_ch "MsgEnvelope" spec_MsgEnvelope 141 eq_refl eq_refl ch None v tb tr bits refs fuel Hwt Henc I Hfuel).
Qed.
Print Assumptions C16_MsgEnvelope.

(* a message behind a reference: body inline (begins with 1), init in a reference *)
Definition ex_MessageAny_in : pv :=
  PObj "MessageAny" [("body"%string, PCell (Cell (-1) [true; true; false; true] [Cell (-1) [false] []]));
    ("info"%string, ex_InternalMsgInfo); ("init"%string, ex_StateInit)].
Definition ex_MsgEnvelope : pv :=
  PObj "MsgEnvelope" [("cur_addr"%string, ex_IntermediateAddress); ("emitted_lt"%string, PInt 350686);
    ("fwd_fee_remaining"%string, PInt 1000000007); ("metadata"%string, ex_MsgMetadata);
    ("msg"%string, ex_MessageAny_in); ("next_addr"%string, ex_IntermediateAddress);
    ("type_"%string, PStr "msg_envelope_v2")].
Definition ex_MsgEnvelope_v1 : pv :=
  PObj "MsgEnvelope" [("cur_addr"%string, ex_IntermediateAddress); ("emitted_lt"%string, PNone);
    ("fwd_fee_remaining"%string, PInt 1000000007); ("metadata"%string, PNone);
    ("msg"%string, ex_MessageAny_out); ("next_addr"%string, ex_IntermediateAddress);
    ("type_"%string, PStr "msg_envelope")].
Example C16_MsgEnvelope_ex :
  Forall (fun v =>
    wt_in ch_mix spec_table spec_MsgEnvelope None v /\
    match encode_ch ch_mix spec_table spec_MsgEnvelope v with
    | Ok (bits, refs) =>
        run_type impl_table 141 "MsgEnvelope" [] (Cell (-1) (bits ++ [true; false]) (refs ++ [Cell (-1) [] []]))
        = Ok (v, mkS [true; false] [Cell (-1) [] []])
    | Err _ => False
    end)
    [ex_MsgEnvelope; ex_MsgEnvelope_v1].
Proof. repeat (apply Forall_cons; [split; [wt_tac|vm_compute; reflexivity]|]). apply Forall_nil. Qed.

(* ---- Transaction ---- *)
(* v keeps under `cell` the cell it is parsed from (bits ++ tb, refs ++ tr) and under `out_msgs` the list of
   the outbound messages, encoded as the dictionary HashmapE 15 ^(Message Any) with the keys 0, 1, 2, ... *)
Theorem C16_Transaction : forall ch v tb tr bits refs fuel,
  wt_in ch spec_table spec_Transaction (Some (tb, tr)) v ->
  encode_ch ch spec_table spec_Transaction v = Ok (bits, refs) -> (1569 <= fuel)%nat ->
  run_type impl_table fuel "Transaction" [] (Cell (-1) (bits ++ tb) (refs ++ tr)) = Ok (v, mkS tb tr).
Proof.
  intros ch v tb tr bits refs fuel Hwt Henc Hfuel.
  exact (C16_generic_ch "Transaction" spec_Transaction 1569 eq_refl need_Transaction ch (Some (tb, tr)) v tb tr bits refs fuel
           Hwt Henc eq_refl Hfuel).
Qed.
Print Assumptions C16_Transaction.
Corollary C16_Transaction_cell : forall ch v tb tr bits refs,
  wt_in ch spec_table spec_Transaction (Some (tb, tr)) v ->
  encode_ch ch spec_table spec_Transaction v = Ok (bits, refs) ->
  field_of v "cell" = PCell (Cell (-1) (bits ++ tb) (refs ++ tr)).
Proof. intros ch v tb tr bits refs. exact (wt_snapshot ch spec_table spec_Transaction tb tr v "cell" bits refs eq_refl). Qed.
Print Assumptions C16_Transaction_cell.

Definition mk_Transaction (in_msg out_msgs descr : pv) (cnt : Z) (c : cell) : pv :=
  PObj "Transaction" [("account_addr"%string, PBytes bytes32); ("account_addr_hex"%string, PHex bytes32);
    ("cell"%string, PCell c); ("description"%string, descr); ("end_status"%string, ex_AccountStatus);
    ("in_msg"%string, in_msg); ("lt"%string, PInt 350686); ("now"%string, PInt 954413);
    ("orig_status"%string, ex_AccountStatus); ("out_msgs"%string, out_msgs); ("outmsg_cnt"%string, PInt cnt);
    ("prev_trans_hash"%string, PBytes bytes32); ("prev_trans_lt"%string, PInt 350685);
    ("state_update"%string, ex_HashUpdate); ("total_fees"%string, ex_CurrencyCollection)].
(* an inbound message, two outbound messages, an ordinary description *)
Definition ex_Transaction : pv :=
  Eval vm_compute in with_cell ch_mix spec_Transaction
    (mk_Transaction ex_MessageAny_in (PList [ex_MessageAny_out; ex_MessageAny_in]) ex_TransactionOrdinary 2)
    ex_tail_bits ex_tail_refs.
(* no inbound message, no outbound message, a tick-tock description *)
Definition ex_Transaction_bare : pv :=
  Eval vm_compute in with_cell ch_mix spec_Transaction (mk_Transaction PNone (PList []) ex_TransactionTickTock 0) ex_tail_bits ex_tail_refs.
Example C16_Transaction_ex :
  Forall (fun v =>
    wt_in ch_mix spec_table spec_Transaction (Some (ex_tail_bits, ex_tail_refs)) v /\
    match encode_ch ch_mix spec_table spec_Transaction v with
    | Ok (bits, refs) =>
        run_type impl_table 1569 "Transaction" [] (Cell (-1) (bits ++ ex_tail_bits) (refs ++ ex_tail_refs))
        = Ok (v, mkS ex_tail_bits ex_tail_refs)
        /\ field_of v "cell" = PCell (Cell (-1) (bits ++ ex_tail_bits) (refs ++ ex_tail_refs))
    | Err _ => False
    end)
    [ex_Transaction; ex_Transaction_bare].
Proof. repeat (apply Forall_cons; [split; [wt_tac|vm_compute; split; reflexivity]|]). apply Forall_nil. Qed.

(* an exotic (e.g. pruned) cell: Transaction.deserialize returns the cell itself and reads nothing *)
Theorem C16_Transaction_exotic : forall ty bits refs fuel, ty <> (-1) -> (4 <= fuel)%nat ->
  run_type impl_table fuel "Transaction" [] (Cell ty bits refs) = Ok (PCell (Cell ty bits refs), mkS bits refs).
Proof. intros ty bits refs fuel. exact (run_type_exotic "Transaction" spec_Transaction ty bits refs fuel eq_refl). Qed.
Print Assumptions C16_Transaction_exotic.

(* ---- TransactionSplitInstall, TransactionMergeInstall (prepare_transaction:^Transaction) ---- *)
Theorem C16_TransactionSplitInstall : forall ch v tb tr bits refs fuel,
  wt_in ch spec_table spec_TransactionSplitInstall None v ->
  encode_ch ch spec_table spec_TransactionSplitInstall v = Ok (bits, refs) -> (1432 <= fuel)%nat ->
  run_type impl_table fuel "TransactionSplitInstall" [] (Cell (-1) (bits ++ tb) (refs ++ tr)) = Ok (v, mkS tb tr).
Proof.
  intros ch v tb tr bits refs fuel Hwt Henc Hfuel.
  exact (C16_generic_ch "TransactionSplitInstall" spec_TransactionSplitInstall 1432 eq_refl need_TransactionSplitInstall ch None v tb tr
           bits refs fuel Hwt Henc I Hfuel).
Qed.
Theorem C16_TransactionMergeInstall : forall ch v tb tr bits refs fuel,
  wt_in ch spec_table spec_TransactionMergeInstall None v ->
  encode_ch ch spec_table spec_TransactionMergeInstall v = Ok (bits, refs) -> (1545 <= fuel)%nat ->
  run_type impl_table fuel "TransactionMergeInstall" [] (Cell (-1) (bits ++ tb) (refs ++ tr)) = Ok (v, mkS tb tr).
Proof.
  intros ch v tb tr bits refs fuel Hwt Henc Hfuel.
  exact (C16_generic_ch "TransactionMergeInstall" spec_TransactionMergeInstall 1545 eq_refl need_TransactionMergeInstall ch None v tb tr
           bits refs fuel Hwt Henc I Hfuel).
Qed.
Print Assumptions C16_TransactionSplitInstall.
Print Assumptions C16_TransactionMergeInstall.

(* a transaction alone in its cell (behind a reference) *)
Definition ex_Transaction_ref : pv :=
  Eval vm_compute in with_cell ch_mix spec_Transaction
    (mk_Transaction ex_MessageAny_in (PList [ex_MessageAny_out]) ex_TransactionStorage 1) [] [].
Definition ex_TransactionSplitInstall : pv :=
  PObj "TransactionSplitInstall" [("installed"%string, PBool true); ("prepare_transaction"%string, ex_Transaction_ref);
    ("split_info"%string, ex_SplitMergeInfo); ("type_"%string, PStr "split_install")].
Definition ex_TransactionMergeInstall : pv :=
  PObj "TransactionMergeInstall" [("aborted"%string, PBool true); ("action"%string, ex_TrActionPhase);
    ("compute_ph"%string, ex_TrComputePhase); ("credit_ph"%string, ex_TrCreditPhase); ("destroyed"%string, PBool false);
    ("prepare_transaction"%string, ex_Transaction_ref); ("split_info"%string, ex_SplitMergeInfo);
    ("storage_ph"%string, ex_TrStoragePhase); ("type_"%string, PStr "merge_install")].
Example C16_TransactionSplitInstall_ex :
  wt_in ch_mix spec_table spec_TransactionSplitInstall None ex_TransactionSplitInstall /\
  match encode_ch ch_mix spec_table spec_TransactionSplitInstall ex_TransactionSplitInstall with
  | Ok (bits, refs) =>
      run_type impl_table 1432 "TransactionSplitInstall" [] (Cell (-1) (bits ++ [true; false]) (refs ++ [Cell (-1) [] []]))
      = Ok (ex_TransactionSplitInstall, mkS [true; false] [Cell (-1) [] []])
  | Err _ => False
  end.
Proof. split; [wt_tac|vm_compute; reflexivity]. Qed.
Example C16_TransactionMergeInstall_ex :
  wt_in ch_mix spec_table spec_TransactionMergeInstall None ex_TransactionMergeInstall /\
  match encode_ch ch_mix spec_table spec_TransactionMergeInstall ex_TransactionMergeInstall with
  | Ok (bits, refs) =>
      run_type impl_table 1545 "TransactionMergeInstall" [] (Cell (-1) (bits ++ [true; false]) (refs ++ [Cell (-1) [] []]))
      = Ok (ex_TransactionMergeInstall, mkS [true; false] [Cell (-1) [] []])
  | Err _ => False
  end.
Proof. split; [wt_tac|vm_compute; reflexivity]. Qed.
(* the two remaining kinds of TransactionDescr *)
Example C16_TransactionDescr_ex2 :
  Forall (fun v =>
    wt_in ch_mix spec_table spec_TransactionDescr None v /\
    match encode_ch ch_mix spec_table spec_TransactionDescr v with
    | Ok (bits, refs) =>
        run_type impl_table 1441 "TransactionDescr" [] (Cell (-1) (bits ++ [true; false]) (refs ++ [Cell (-1) [] []]))
        = Ok (v, mkS [true; false] [Cell (-1) [] []])
    | Err _ => False
    end)
    [ex_TransactionSplitInstall; ex_TransactionMergeInstall].
Proof. repeat (apply Forall_cons; [split; [wt_tac|vm_compute; reflexivity]|]). apply Forall_nil. Qed.

(* ---- InMsg (all nine constructors) ---- *)
Theorem C16_InMsg : forall ch v tb tr bits refs fuel,
  wt_in ch spec_table spec_InMsg None v -> encode_ch ch spec_table spec_InMsg v = Ok (bits, refs) ->
  (1578 <= fuel)%nat ->
  run_type impl_table fuel "InMsg" [] (Cell (-1) (bits ++ tb) (refs ++ tr)) = Ok (v, mkS tb tr).
Proof.
  intros ch v tb tr bits refs fuel Hwt Henc Hfuel.
  exact (C16_generic_ch "InMsg" spec_InMsg 1578 eq_refl need_InMsg ch None v tb tr bits refs fuel Hwt Henc I Hfuel).
Qed.
Print Assumptions C16_InMsg.

Definition ex_InMsg_ext : pv :=
  PObj "InMsg" [("in_msg"%string, PNone); ("msg"%string, ex_MessageAny_in); ("transaction"%string, ex_Transaction_ref);
    ("type_"%string, PStr "msg_import_ext")].
Definition ex_InMsg_ihr : pv :=
  PObj "InMsg" [("ihr_fee"%string, PInt 1000000007); ("in_msg"%string, PNone); ("msg"%string, ex_MessageAny_out);
    ("proof_created"%string, PCell (Cell (-1) [true; false; true] [])); ("transaction"%string, ex_Transaction_ref);
    ("type_"%string, PStr "msg_import_ihr")].
Definition ex_InMsg_imm : pv :=
  PObj "InMsg" [("fwd_fee"%string, PInt 1000000007); ("in_msg"%string, ex_MsgEnvelope); ("msg"%string, PNone);
    ("transaction"%string, ex_Transaction_ref); ("type_"%string, PStr "msg_import_imm")].
Definition ex_InMsg_fin : pv :=
  PObj "InMsg" [("fwd_fee"%string, PInt 1000000007); ("in_msg"%string, ex_MsgEnvelope_v1); ("msg"%string, PNone);
    ("transaction"%string, ex_Transaction_ref); ("type_"%string, PStr "msg_import_fin")].
Definition ex_InMsg_tr : pv :=
  PObj "InMsg" [("in_msg"%string, ex_MsgEnvelope); ("msg"%string, PNone); ("out_msg"%string, ex_MsgEnvelope_v1);
    ("transaction"%string, PNone); ("transit_fee"%string, PInt 300); ("type_"%string, PStr "msg_import_tr")].
Definition ex_InMsg_discard_fin : pv :=
  PObj "InMsg" [("fwd_fee"%string, PInt 300); ("in_msg"%string, ex_MsgEnvelope); ("msg"%string, PNone);
    ("transaction"%string, PNone); ("transaction_id"%string, PInt 350686); ("type_"%string, PStr "msg_discard_fin")].
Definition ex_InMsg_discard_tr : pv :=
  PObj "InMsg" [("fwd_fee"%string, PInt 300); ("in_msg"%string, ex_MsgEnvelope); ("msg"%string, PNone);
    ("proof_delivered"%string, PCell (Cell (-1) [true; false; true] [])); ("transaction"%string, PNone);
    ("transaction_id"%string, PInt 350686); ("type_"%string, PStr "msg_discard_tr")].
Definition ex_InMsg_deferred_fin : pv :=
  PObj "InMsg" [("fwd_fee"%string, PInt 1000000007); ("in_msg"%string, ex_MsgEnvelope); ("msg"%string, PNone);
    ("transaction"%string, ex_Transaction_ref); ("type_"%string, PStr "msg_import_deferred_fin")].
Definition ex_InMsg_deferred_tr : pv :=
  PObj "InMsg" [("in_msg"%string, ex_MsgEnvelope); ("msg"%string, PNone); ("out_msg"%string, ex_MsgEnvelope_v1);
    ("transaction"%string, PNone); ("type_"%string, PStr "msg_import_deferred_tr")].
Example C16_InMsg_ex :
  Forall (fun v =>
    wt_in ch_mix spec_table spec_InMsg None v /\
    match encode_ch ch_mix spec_table spec_InMsg v with
    | Ok (bits, refs) =>
        run_type impl_table 1578 "InMsg" [] (Cell (-1) (bits ++ [true; false]) (refs ++ [Cell (-1) [] []]))
        = Ok (v, mkS [true; false] [Cell (-1) [] []])
    | Err _ => False
    end)
    [ex_InMsg_ext; ex_InMsg_ihr; ex_InMsg_imm; ex_InMsg_fin; ex_InMsg_tr; ex_InMsg_discard_fin; ex_InMsg_discard_tr;
     ex_InMsg_deferred_fin; ex_InMsg_deferred_tr].
Proof. repeat (apply Forall_cons; [split; [wt_tac|vm_compute; reflexivity]|]). apply Forall_nil. Qed.

(* ---- AccountBlock (transactions:(HashmapAug 64 ^Transaction CurrencyCollection), inline) ---- *)
(* v keeps under `transactions` the pair parse_hashmap_aug returns: PAugDict kvs extras, kvs the transactions
   by ascending 64-bit key, extras the CurrencyCollection of EVERY node of the Patricia tree of the keys in
   the order the nodes are visited (left subtree, right subtree, then the fork; a leaf: its own extra): as
   many extras as nodes (2 * |kvs| - 1).  The encoder builds the canonical HashmapAug of them (Spec/Tlb.v:
   aug_cell: ahm_edge label, ahmn_leaf extra value / ahmn_fork left right extra), the root edge inline. *)
Theorem C16_AccountBlock : forall ch v tb tr bits refs fuel,
  wt_in ch spec_table spec_AccountBlock None v -> encode_ch ch spec_table spec_AccountBlock v = Ok (bits, refs) ->
  (1473 <= fuel)%nat ->
  run_type impl_table fuel "AccountBlock" [] (Cell (-1) (bits ++ tb) (refs ++ tr)) = Ok (v, mkS tb tr).
Proof.
  intros ch v tb tr bits refs fuel Hwt Henc Hfuel.
  exact (C16_generic_ch "AccountBlock" spec_AccountBlock 1473 eq_refl need_AccountBlock ch None v tb tr bits refs fuel
           Hwt Henc I Hfuel).
Qed.
Print Assumptions C16_AccountBlock.

Definition ex_Transaction_ref2 : pv :=
  Eval vm_compute in with_cell ch_mix spec_Transaction (mk_Transaction PNone (PList []) ex_TransactionTickTock 0) [] [].
(* two transactions (keys 5 and 9: a fork at the root, two leaves), three extras *)
Definition ex_AccountBlock : pv :=
  PObj "AccountBlock" [("account_addr"%string, PHex bytes32); ("state_update"%string, ex_HashUpdate);
    ("transactions"%string,
     PAugDict [(5, ex_Transaction_ref); (9, ex_Transaction_ref2)] [ex_cc 1; ex_cc_extra 2; ex_cc_extra 3])].
(* a single transaction: the root is a leaf, extra and value are read from the cell of the block itself *)
Definition ex_AccountBlock_single : pv :=
  PObj "AccountBlock" [("account_addr"%string, PHex bytes32); ("state_update"%string, ex_HashUpdate);
    ("transactions"%string, PAugDict [(350686, ex_Transaction_ref2)] [ex_cc_extra 2])].
Example C16_AccountBlock_ex :
  Forall (fun v =>
    wt_in ch_mix spec_table spec_AccountBlock None v /\
    match encode_ch ch_mix spec_table spec_AccountBlock v with
    | Ok (bits, refs) =>
        run_type impl_table 1473 "AccountBlock" [] (Cell (-1) (bits ++ [true; false]) (refs ++ [Cell (-1) [] []]))
        = Ok (v, mkS [true; false] [Cell (-1) [] []])
    | Err _ => False
    end)
    [ex_AccountBlock; ex_AccountBlock_single].
Proof. repeat (apply Forall_cons; [split; [wt_tac|vm_compute; reflexivity]|]). apply Forall_nil. Qed.

(* ---- ShardAccounts = HashmapAugE 256 ShardAccount DepthBalanceInfo: no theorem ----
   load_hashmap_aug_e does not read the extra:Y that follows ahme_empty$0 / ahme_root$1 root:^(..): here an empty
   dictionary, whose extra (depth_balance: 5 bits, Grams 0, no extra currencies) stays in the slice and is
   returned, unparsed, as the only element of `extras`. *)
Example ShardAccounts_extra_unread :
  run_type impl_table 10 "ShardAccounts" [] (Cell (-1) ([false] ++ [false; false; false; true; true; false; false; false; false; false]) [])
  = Ok (PAugDict [] [PSlice (mkS [false; false; false; true; true; false; false; false; false; false] [])],
        mkS [false; false; false; true; true; false; false; false; false; false] []).
Proof. vm_compute. reflexivity. Qed.

(* ---- BlkPrevInfo 0 / BlkPrevInfo 1 (a type with a parameter: the table is keyed by (name, arguments)) ---- *)
Theorem C16_BlkPrevInfo_0 : forall v tb tr bits refs fuel,
  wt spec_table spec_BlkPrevInfo_0 v -> encode spec_table spec_BlkPrevInfo_0 v = Ok (bits, refs) -> (13 <= fuel)%nat ->
  run_type impl_table fuel "BlkPrevInfo" [0] (Cell (-1) (bits ++ tb) (refs ++ tr)) = Ok (v, mkS tb tr).
Proof.
  intros v tb tr bits refs fuel Hwt Henc Hfuel.
  exact (C16_generic_args "BlkPrevInfo" [0] spec_BlkPrevInfo_0 13 eq_refl eq_refl ch_ref None v tb tr bits refs fuel
           Hwt Henc I Hfuel).
Qed.
Print Assumptions C16_BlkPrevInfo_0.
Theorem C16_BlkPrevInfo_1 : forall v tb tr bits refs fuel,
  wt spec_table spec_BlkPrevInfo_1 v -> encode spec_table spec_BlkPrevInfo_1 v = Ok (bits, refs) -> (24 <= fuel)%nat ->
  run_type impl_table fuel "BlkPrevInfo" [1] (Cell (-1) (bits ++ tb) (refs ++ tr)) = Ok (v, mkS tb tr).
Proof.
  intros v tb tr bits refs fuel Hwt Henc Hfuel.
  exact (C16_generic_args "BlkPrevInfo" [1] spec_BlkPrevInfo_1 24 eq_refl eq_refl ch_ref None v tb tr bits refs fuel
           Hwt Henc I Hfuel).
Qed.
Print Assumptions C16_BlkPrevInfo_1.

Definition ex_BlkPrevInfo_0 : pv :=
  PObj "BlkPrevInfo" [("prev"%string, ex_ExtBlkRef); ("type_"%string, PStr "prev_blk_info")].
Definition ex_BlkPrevInfo_1 : pv :=
  PObj "BlkPrevInfo" [("prev1"%string, ex_ExtBlkRef); ("prev2"%string, ex_ExtBlkRef);
    ("type_"%string, PStr "prev_blks_info")].
Example C16_BlkPrevInfo_ex :
  (wt spec_table spec_BlkPrevInfo_0 ex_BlkPrevInfo_0 /\
   match encode spec_table spec_BlkPrevInfo_0 ex_BlkPrevInfo_0 with
   | Ok (bits, refs) =>
       run_type impl_table 13 "BlkPrevInfo" [0] (Cell (-1) (bits ++ [true; false]) (refs ++ [Cell (-1) [] []]))
       = Ok (ex_BlkPrevInfo_0, mkS [true; false] [Cell (-1) [] []])
   | Err _ => False
   end) /\
  (wt spec_table spec_BlkPrevInfo_1 ex_BlkPrevInfo_1 /\
   match encode spec_table spec_BlkPrevInfo_1 ex_BlkPrevInfo_1 with
   | Ok (bits, refs) =>
       run_type impl_table 24 "BlkPrevInfo" [1] (Cell (-1) (bits ++ [true; false]) (refs ++ [Cell (-1) [] []]))
       = Ok (ex_BlkPrevInfo_1, mkS [true; false] [Cell (-1) [] []])
   | Err _ => False
   end).
Proof. split; (split; [wt_tac|vm_compute; reflexivity]). Qed.

(* ---- BlockInfo (conditional fields gen_software:flags . 0?.., master_ref:not_master?.., prev_vert_ref:
   vert_seqno_incr?..; prev_ref:^(BlkPrevInfo after_merge); the constraints { flags <= 1 } and
   { vert_seq_no >= vert_seqno_incr }) ---- *)
Theorem C16_BlockInfo : forall v tb tr bits refs fuel,
  wt spec_table spec_BlockInfo v -> encode spec_table spec_BlockInfo v = Ok (bits, refs) -> (185 <= fuel)%nat ->
  run_type impl_table fuel "BlockInfo" [] (Cell (-1) (bits ++ tb) (refs ++ tr)) = Ok (v, mkS tb tr).
Proof. exact (C16_generic "BlockInfo" spec_BlockInfo 185 eq_refl eq_refl). Qed.
Print Assumptions C16_BlockInfo.
Theorem C16_BlockInfo_exotic : forall ty bits refs fuel, ty <> (-1) -> (4 <= fuel)%nat ->
  run_type impl_table fuel "BlockInfo" [] (Cell ty bits refs) = Ok (PNone, mkS bits refs).
Proof. intros ty bits refs fuel. exact (run_type_exotic "BlockInfo" spec_BlockInfo ty bits refs fuel eq_refl). Qed.
Print Assumptions C16_BlockInfo_exotic.

Definition mk_BlockInfo (not_master after_merge incr : bool) (flags vert : Z) (soft master prev vprev : pv) : pv :=
  PObj "BlockInfo" [("after_merge"%string, PBool after_merge); ("after_split"%string, PBool true);
    ("before_split"%string, PBool false); ("end_lt"%string, PInt 350690); ("flags"%string, PInt flags);
    ("gen_catchain_seqno"%string, PInt 954413); ("gen_software"%string, soft); ("gen_utime"%string, PInt 954413);
    ("gen_validator_list_hash_short"%string, PInt 954413); ("key_block"%string, PBool true);
    ("master_ref"%string, master); ("min_ref_mc_seqno"%string, PInt 954413); ("not_master"%string, PBool not_master);
    ("prev_key_block_seqno"%string, PInt 954413); ("prev_ref"%string, prev); ("prev_vert_ref"%string, vprev);
    ("seqno"%string, PInt 954413); ("shard"%string, ex_ShardIdent); ("start_lt"%string, PInt 350686);
    ("version"%string, PInt 0); ("vert_seqno"%string, PInt vert); ("vert_seqno_incr"%string, PBool incr);
    ("want_merge"%string, PBool false); ("want_split"%string, PBool true)].
(* every optional part present (and two previous blocks), resp. absent *)
Definition ex_BlockInfo_full : pv :=
  mk_BlockInfo true true true 1 1 ex_GlobalVersion ex_BlkMasterInfo ex_BlkPrevInfo_1 ex_BlkPrevInfo_0.
Definition ex_BlockInfo_bare : pv := mk_BlockInfo false false false 0 0 PNone PNone ex_BlkPrevInfo_0 PNone.
Example C16_BlockInfo_ex :
  Forall (fun v =>
    wt spec_table spec_BlockInfo v /\
    match encode spec_table spec_BlockInfo v with
    | Ok (bits, refs) =>
        run_type impl_table 185 "BlockInfo" [] (Cell (-1) (bits ++ [true; false]) (refs ++ [Cell (-1) [] []]))
        = Ok (v, mkS [true; false] [Cell (-1) [] []])
    | Err _ => False
    end)
    [ex_BlockInfo_full; ex_BlockInfo_bare].
Proof. repeat (apply Forall_cons; [split; [wt_tac|vm_compute; reflexivity]|]). apply Forall_nil. Qed.

(* ---- ShardDescr (shard_descr#b, shard_descr_new#a) ---- *)
(* The object does not record which constructor built it: ch v tells the encoder (false: shard_descr#b, the two
   CurrencyCollections inline; true: shard_descr_new#a, in a reference); for every ch. *)
Theorem C16_ShardDescr : forall ch v tb tr bits refs fuel,
  wt_in ch spec_table spec_ShardDescr None v -> encode_ch ch spec_table spec_ShardDescr v = Ok (bits, refs) ->
  (73 <= fuel)%nat ->
  run_type impl_table fuel "ShardDescr" [] (Cell (-1) (bits ++ tb) (refs ++ tr)) = Ok (v, mkS tb tr).
Proof.
  intros ch v tb tr bits refs fuel Hwt Henc Hfuel.
  exact (C16_generic_ch "ShardDescr" spec_ShardDescr 73 eq_refl eq_refl ch None v tb tr bits refs fuel Hwt Henc I Hfuel).
Qed.
Print Assumptions C16_ShardDescr.

Definition ex_ShardDescr : pv :=
  PObj "ShardDescr" [("before_merge"%string, PBool false); ("before_split"%string, PBool true);
    ("end_lt"%string, PInt 350690); ("fees_collected"%string, ex_cc_extra 5); ("file_hash"%string, PBytes bytes32);
    ("flags"%string, PInt 0); ("funds_created"%string, ex_cc 6); ("gen_utime"%string, PInt 954413);
    ("min_ref_mc_seqno"%string, PInt 954413); ("next_catchain_seqno"%string, PInt 954413);
    ("next_validator_shard"%string, PInt 9223372036854775808); ("nx_cc_updated"%string, PBool true);
    ("reg_mc_seqno"%string, PInt 954413); ("root_hash"%string, PBytes bytes32); ("seq_no"%string, PInt 954413);
    ("split_merge_at"%string, ex_FutureSplitMerge); ("start_lt"%string, PInt 350686);
    ("want_merge"%string, PBool false); ("want_split"%string, PBool true)].
Example C16_ShardDescr_ex :
  Forall (fun ch =>
    wt_in ch spec_table spec_ShardDescr None ex_ShardDescr /\
    match encode_ch ch spec_table spec_ShardDescr ex_ShardDescr with
    | Ok (bits, refs) =>
        run_type impl_table 73 "ShardDescr" [] (Cell (-1) (bits ++ [true; false]) (refs ++ [Cell (-1) [] []]))
        = Ok (ex_ShardDescr, mkS [true; false] [Cell (-1) [] []])
    | Err _ => False
    end)
    [ch_ref; ch_inline].
Proof. repeat (apply Forall_cons; [split; [wt_tac|vm_compute; reflexivity]|]). apply Forall_nil. Qed.
(* the two encodings differ: #a has the reference *)
Example C16_ShardDescr_ex_refs :
  match encode_ch ch_ref spec_table spec_ShardDescr ex_ShardDescr, encode_ch ch_inline spec_table spec_ShardDescr ex_ShardDescr with
  | Ok (b1, r1), Ok (b2, r2) => firstn 4 b1 = [true; false; true; false] /\ firstn 4 b2 = [true; false; true; true]
                                /\ List.length r1 = 1%nat /\ List.length r2 = 1%nat
  | _, _ => False
  end.
Proof. vm_compute. repeat split. Qed.

(* ---- OutMsg (all ten constructors; the library used to label msg_export_deq_short$1101 "msg_export_deq":
   FINDING, repaired) ---- *)
Theorem C16_OutMsg : forall ch v tb tr bits refs fuel,
  wt_in ch spec_table spec_OutMsg None v -> encode_ch ch spec_table spec_OutMsg v = Ok (bits, refs) ->
  (3039 <= fuel)%nat ->
  run_type impl_table fuel "OutMsg" [] (Cell (-1) (bits ++ tb) (refs ++ tr)) = Ok (v, mkS tb tr).
Proof.
  intros ch v tb tr bits refs fuel Hwt Henc Hfuel.
  exact (C16_generic_ch "OutMsg" spec_OutMsg 3039 eq_refl need_OutMsg ch None v tb tr bits refs fuel Hwt Henc I Hfuel).
Qed.
Print Assumptions C16_OutMsg.

Definition ex_OutMsg_ext : pv :=
  PObj "OutMsg" [("msg"%string, ex_MessageAny_in); ("out_msg"%string, PNone); ("transaction"%string, ex_Transaction_ref);
    ("type_"%string, PStr "msg_export_ext")].
Definition ex_OutMsg_imm : pv :=
  PObj "OutMsg" [("msg"%string, PNone); ("out_msg"%string, ex_MsgEnvelope); ("reimport"%string, ex_InMsg_imm);
    ("transaction"%string, ex_Transaction_ref2); ("type_"%string, PStr "msg_export_imm")].
Definition ex_OutMsg_new : pv :=
  PObj "OutMsg" [("msg"%string, PNone); ("out_msg"%string, ex_MsgEnvelope_v1); ("transaction"%string, ex_Transaction_ref2);
    ("type_"%string, PStr "msg_export_new")].
Definition ex_OutMsg_tr : pv :=
  PObj "OutMsg" [("imported"%string, ex_InMsg_discard_tr); ("msg"%string, PNone); ("out_msg"%string, ex_MsgEnvelope);
    ("transaction"%string, PNone); ("type_"%string, PStr "msg_export_tr")].
Definition ex_OutMsg_deq_imm : pv :=
  PObj "OutMsg" [("msg"%string, PNone); ("out_msg"%string, ex_MsgEnvelope); ("reimport"%string, ex_InMsg_tr);
    ("transaction"%string, PNone); ("type_"%string, PStr "msg_export_deq_imm")].
Definition ex_OutMsg_tr_req : pv :=
  PObj "OutMsg" [("imported"%string, ex_InMsg_deferred_tr); ("msg"%string, PNone); ("out_msg"%string, ex_MsgEnvelope_v1);
    ("transaction"%string, PNone); ("type_"%string, PStr "msg_export_tr_req")].
Definition ex_OutMsg_deq : pv :=
  PObj "OutMsg" [("import_block_lt"%string, PInt 350686); ("msg"%string, PNone); ("out_msg"%string, ex_MsgEnvelope);
    ("transaction"%string, PNone); ("type_"%string, PStr "msg_export_deq")].
Definition ex_OutMsg_deq_short : pv :=
  PObj "OutMsg" [("import_block_lt"%string, PInt 350686); ("msg"%string, PNone); ("msg_env_hash"%string, PBytes bytes32);
    ("next_addr_pfx"%string, PInt 350686); ("next_workchain"%string, PInt (-1)); ("out_msg"%string, PNone);
    ("transaction"%string, PNone); ("type_"%string, PStr "msg_export_deq_short")].
Definition ex_OutMsg_new_defer : pv :=
  PObj "OutMsg" [("msg"%string, PNone); ("out_msg"%string, ex_MsgEnvelope); ("transaction"%string, ex_Transaction_ref2);
    ("type_"%string, PStr "msg_export_new_defer")].
Definition ex_OutMsg_deferred_tr : pv :=
  PObj "OutMsg" [("imported"%string, ex_InMsg_fin); ("msg"%string, PNone); ("out_msg"%string, ex_MsgEnvelope_v1);
    ("transaction"%string, PNone); ("type_"%string, PStr "msg_export_deferred_tr")].
Example C16_OutMsg_ex :
  Forall (fun v =>
    wt_in ch_mix spec_table spec_OutMsg None v /\
    match encode_ch ch_mix spec_table spec_OutMsg v with
    | Ok (bits, refs) =>
        run_type impl_table 3039 "OutMsg" [] (Cell (-1) (bits ++ [true; false]) (refs ++ [Cell (-1) [] []]))
        = Ok (v, mkS [true; false] [Cell (-1) [] []])
    | Err _ => False
    end)
    [ex_OutMsg_ext; ex_OutMsg_imm; ex_OutMsg_new; ex_OutMsg_tr; ex_OutMsg_deq_imm; ex_OutMsg_tr_req; ex_OutMsg_deq;
     ex_OutMsg_deq_short; ex_OutMsg_new_defer; ex_OutMsg_deferred_tr].
Proof. repeat (apply Forall_cons; [split; [wt_tac|vm_compute; reflexivity]|]). apply Forall_nil. Qed.
