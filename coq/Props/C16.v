(* C16 - placeholder *)
From Coq Require Import NArith.
