(* C13 - address text forms round-trip and the friendly form's checksum is enforced. *)
From Coq Require Import NArith ZArith List Bool.
From PTQ Require Import Base.Result Base.Bytes Base.Bits Model.Cell Model.Crc Model.Address Proofs.AddressProofs.
Import ListNotations.
Local Open Scope N_scope.

(* every user-friendly variant parses back to the same workchain, account id and flags *)
Theorem C13_friendly : forall wc h urlsafe b t,
  (-128 <= wc <= 127)%Z -> length h = 32%nat -> bytes_ok h ->
  exists s, to_str wc h true urlsafe b t = Ok s /\ length s = 48%nat /\
            address_of_str s = Ok (mkAddr wc h b t).
Proof. exact friendly_roundtrip. Qed.
Print Assumptions C13_friendly.

(* the raw form parses back, for every workchain id (any integer) *)
Theorem C13_raw : forall wc h urlsafe b t, length h = 32%nat -> bytes_ok h ->
  exists s, to_str wc h false urlsafe b t = Ok s /\ address_of_str s = Ok (mkAddr wc h false false).
Proof. exact raw_roundtrip. Qed.
Print Assumptions C13_raw.

(* equal addresses hash equally *)
Theorem C13_eq_hash : forall a b, address_eqb a b = true -> address_pyhash a = address_pyhash b.
Proof. exact address_eq_hash. Qed.
Print Assumptions C13_eq_hash.

(* replacing any single character of a friendly address by another character of the same base64
   alphabet is rejected: all 48 positions x 63 other characters, for every address and variant *)
Theorem C13_checksum : forall wc h urlsafe b t s i c',
  (-128 <= wc <= 127)%Z -> length h = 32%nat -> bytes_ok h ->
  to_str wc h true urlsafe b t = Ok s -> (i < 48)%nat ->
  (exists v, v < 64 /\ c' = b64_char urlsafe v) -> nth i s 0 <> c' ->
  exists e, address_of_str (firstn i s ++ c' :: skipn (S i) s) = Err e.
Proof. exact checksum_enforced. Qed.
Print Assumptions C13_checksum.

(* the workchain byte of the friendly form cannot represent ids outside -128..127 *)
Theorem C13_friendly_range : forall wc h urlsafe b t, (wc < -128 \/ 127 < wc)%Z ->
  to_str wc h true urlsafe b t = Err EOverflow.
Proof. exact friendly_wc_range. Qed.
Print Assumptions C13_friendly_range.

Example C13_example :
  let h := map N.of_nat (seq 1 32) in
  match to_str (-1) h true true false true with
  | Ok s => address_of_str s = Ok (mkAddr (-1) h false true) /\
            is_ok (address_of_str (65 :: tl s)) = false
  | Err _ => False
  end.
Proof. vm_compute. split; reflexivity. Qed.
