(* C05 - the BoC parser agrees with the format on foreign input and rejects corruption. *)
From Coq Require Import NArith ZArith List Bool.
From PTQ Require Import Base.Result Base.Bytes Base.Bits Base.Sha256 Model.Cell Model.Boc
  Spec.BocFormat Spec.BocProps Proofs.BocAccept Proofs.BocReject.
Import ListNotations.
Local Open Scope N_scope.

(* every encoding the strict decoder of the format accepts - any admissible size and offset widths, with or
   without index, cache bits, CRC, stored hashes, one or several roots, any valid cell order, any of the three
   magic prefixes - is parsed to exactly the roots it denotes (provided its cells can be constructed at all);
   the input is a byte string (every element < 256) *)
Theorem C05_accepts : forall d roots cs, bytes_ok d ->
  s_all_cells d = Some cs -> s_decode d = Some roots ->
  Forall (fun t => is_ok (build sha256 t) = true) cs ->
  exists ks, deserialize sha256 d = Ok ks /\ map k_tree ks = roots.
Proof. exact (parser_accepts_valid sha256). Qed.
Print Assumptions C05_accepts.

(* an accepted bag with anything appended is rejected *)
Theorem C05_extended : forall d r x, deserialize sha256 d = Ok r -> x <> [] ->
  exists e, deserialize sha256 (d ++ x) = Err e.
Proof. exact (extended_rejected sha256). Qed.
Print Assumptions C05_extended.

(* every proper prefix of an accepted bag is rejected *)
Theorem C05_truncated : forall d r n, deserialize sha256 d = Ok r -> (n < length d)%nat ->
  exists e, deserialize sha256 (firstn n d) = Err e.
Proof. exact (truncated_rejected sha256). Qed.
Print Assumptions C05_truncated.

(* any single-bit corruption of a CRC-protected bag is rejected *)
Theorem C05_bitflip : forall d r i, deserialize sha256 d = Ok r -> crc_protected d = true ->
  (i < 8 * length d)%nat -> exists e, deserialize sha256 (flip_bit i d) = Err e.
Proof. exact (bitflip_rejected sha256). Qed.
Print Assumptions C05_bitflip.

(* dangling, backward and self references are rejected *)
Theorem C05_bad_refs : forall d h raws ci rc r,
  deserialize_boc_header d = Ok h ->
  parse_cells (N.to_nat (h_cells h)) (h_cells_data h) (h_size h) = Ok raws ->
  nth_error raws ci = Some rc -> In r (r_refs rc) ->
  (N.to_nat r <= ci \/ length raws <= N.to_nat r)%nat ->
  exists e, deserialize sha256 d = Err e.
Proof. exact (bad_refs_rejected sha256). Qed.
Print Assumptions C05_bad_refs.

(* non-vacuity: a 3-cell bag with index, cache bits and CRC is accepted by both decoders *)
Example C05_example :
  let d := [0xb5;0xee;0x9c;0x72;0xe1;0x01;0x03;0x01;0x00;0x0b;0x00;0x0a;0x12;0x16;0x02;0x02;0x01;0x01;0x02;0x01;
            0x01;0xb0;0x02;0x00;0x00;0x51;0xe2;0x87;0xec] in
  crc_protected d = true /\
  s_decode d = Some [Cell (-1) (to_bits 8 1) [Cell (-1) [true; false; true] [Cell (-1) [] []]; Cell (-1) [] []]] /\
  option_map (map k_tree) (match deserialize sha256 d with Ok ks => Some ks | Err _ => None end) = s_decode d.
Proof. vm_compute. repeat split; reflexivity. Qed.
