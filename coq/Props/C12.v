(* C12 - block signature sets are accepted only with a genuine validator supermajority. *)
From Coq Require Import NArith ZArith List Bool.
From PTQ Require Import Base.Result Base.Bytes Model.Cell Model.Signatures Proofs.SigProofs.
Import ListNotations.
Local Open Scope N_scope.

(* for ANY hash function and ANY signature-verification predicate: the check accepts exactly the
   signature sets of distinct, known, correctly signing validators holding more than 2/3 of the weight *)
Theorem C12_iff : forall H verify nodes sigs root file,
  NoDup (map (fun v => node_id_short H (v_pk v)) nodes) ->
  (check_block_signatures H verify nodes sigs root file = Ok tt <-> s_accept H verify nodes sigs root file).
Proof. exact check_iff_accept. Qed.
Print Assumptions C12_iff.

(* corollaries named by the property *)
Theorem C12_empty_set_rejected : forall H verify sigs root file,
  check_block_signatures H verify [] sigs root file <> Ok tt.
Proof. exact empty_validator_set_rejected. Qed.
Print Assumptions C12_empty_set_rejected.

Theorem C12_duplicate_rejected : forall H verify nodes s1 e s2 sg' s3 root file,
  check_block_signatures H verify nodes (s1 ++ e :: s2 ++ (fst e, sg') :: s3) root file <> Ok tt.
Proof. exact duplicate_signer_rejected. Qed.
Print Assumptions C12_duplicate_rejected.

Theorem C12_invalid_signature_rejected : forall H verify nodes sigs root file id sg v,
  In (id, sg) sigs -> node_lookup H nodes id = Some v ->
  verify (v_pk v) (to_sign root file) sg = false ->
  check_block_signatures H verify nodes sigs root file <> Ok tt.
Proof. exact invalid_signature_rejected. Qed.
Print Assumptions C12_invalid_signature_rejected.

Theorem C12_unknown_signer_rejected : forall H verify nodes sigs root file id sg,
  In (id, sg) sigs -> node_lookup H nodes id = None ->
  check_block_signatures H verify nodes sigs root file <> Ok tt.
Proof. exact unknown_signer_rejected. Qed.
Print Assumptions C12_unknown_signer_rejected.

(* exactly two thirds is not enough; one unit more is *)
Example C12_threshold :
  let H := fun m : list N => m in
  let verify := fun _ _ _ : list N => true in
  let nodes := [mkV [1] 1; mkV [2] 1; mkV [3] 1] in
  let id k := node_id_short H [k] in
  check_block_signatures H verify nodes [(id 1, []); (id 2, [])] [] [] = Err EProof /\
  check_block_signatures H verify nodes [(id 1, []); (id 2, []); (id 3, [])] [] [] = Ok tt /\
  check_block_signatures H verify nodes [(id 1, []); (id 1, []); (id 1, [])] [] [] = Err EProof.
Proof. vm_compute. repeat split; reflexivity. Qed.
