(* C17 - TVM stack values round-trip; the encoding follows the VmStack schema. *)
From Coq Require Import NArith ZArith List Bool.
From PTQ Require Import Base.Result Base.Bytes Base.Bits Model.Cell Model.Builder Model.VmStack
  Spec.TlbPrim Proofs.VmStackProofs Proofs.VmSliceWindow.
Import ListNotations.
Local Open Scope Z_scope.

(* nesting depth of a value: tuples and continuations *)
(* (vm_depth / vm_depth_list are defined in Proofs/VmStackProofs.v) *)

(* serialising a stack of supported values and parsing it back returns equal values in the same order *)
Theorem C17_roundtrip : forall vs fuel c,
  (vm_depth_list vs < fuel)%nat ->
  ser_stack fuel vs = Ok c -> dec_stack fuel (begin_parse c) = Ok vs.
Proof. exact stack_roundtrip. Qed.
Print Assumptions C17_roundtrip.

(* a single value: what is written is what is read, and nothing else is consumed *)
Theorem C17_value : forall v fuel c tb tr,
  (vm_depth v < fuel)%nat -> ser_value fuel v = Ok c ->
  match c with Cell _ bits refs => dec_value fuel (mkS (bits ++ tb) (refs ++ tr)) = Ok (v, mkS tb tr) end.
Proof. exact value_roundtrip. Qed.
Print Assumptions C17_value.

(* integer form per the schema: vm_stk_tinyint#01 value:int64 exactly for -2^63 < z < 2^63,
   vm_stk_int#0201_ value:int257 otherwise (within the 257-bit range) *)
Theorem C17_int_form : forall z fuel c, ser_value (S fuel) (VmInt z) = Ok c ->
  (- 2 ^ 256 <= z < 2 ^ 256) /\
  match c with Cell _ bits refs =>
    refs = [] /\
    if (- 2 ^ 63 <? z) && (z <? 2 ^ 63) then bits = enc 8 1 ++ enc 64 z
    else bits = enc 15 256 ++ enc 257 z
  end.
Proof. exact int_form. Qed.
Print Assumptions C17_int_form.

(* stack list chaining: vm_stk_cons rest:^(VmStackList n) tos:VmStackValue; depth in 24 bits *)
Theorem C17_chain : forall fuel vs v c, ser_stack_list fuel (v :: vs) = Ok c ->
  exists cr cv, ser_stack_list fuel vs = Ok cr /\ ser_value fuel v = Ok cv /\
    match cv with Cell _ vb vr => c = Cell ty_ordinary vb (cr :: vr) end.
Proof. exact stack_list_chain. Qed.
Print Assumptions C17_chain.

(* a slice value written by someone else (the TVM) may denote a WINDOW of its cell: st_bits > 0, end_bits below the cell's
   length, a window of the references; it is parsed as exactly that window (the library's writer always emits windows
   starting at 0, so the round-trip theorems above never see this) *)
Theorem C17_slice_window : forall ty bits refs sb eb sr er tb tr,
  0 <= sb <= eb -> eb < 1024 -> 0 <= sr <= er -> er < 8 ->
  dec_cellslice (mkS (enc 10 sb ++ enc 10 eb ++ enc 3 sr ++ enc 3 er ++ tb) (Cell ty bits refs :: tr)) =
    Ok (VmSliceV (Bits.slice bits (Z.to_nat sb) (Z.to_nat eb)) (Bits.slice refs (Z.to_nat sr) (Z.to_nat er)), mkS tb tr).
Proof. exact cellslice_window. Qed.
Print Assumptions C17_slice_window.

(* an inverted window ({ st_bits <= end_bits }, { st_ref <= end_ref } of the schema) is refused *)
Theorem C17_slice_window_inverted : forall c sb eb sr er tb tr,
  0 <= sb < 1024 -> 0 <= eb < 1024 -> 0 <= sr < 8 -> 0 <= er < 8 -> (eb < sb \/ er < sr) ->
  exists e, dec_cellslice (mkS (enc 10 sb ++ enc 10 eb ++ enc 3 sr ++ enc 3 er ++ tb) (c :: tr)) = Err e.
Proof. exact cellslice_window_inverted. Qed.
Print Assumptions C17_slice_window_inverted.

Example C17_slice_window_example :
  dec_cellslice (mkS (enc 10 2 ++ enc 10 5 ++ enc 3 1 ++ enc 3 2 ++ [true])
                     [Cell (-1) [true; false; true; true; false; false; true] [Cell (-1) [] []; Cell (-1) [true] []; Cell (-1) [false] []]])
  = Ok (VmSliceV [true; true; false] [Cell (-1) [true] []], mkS [true] []).
Proof. vm_compute. reflexivity. Qed.

Example C17_example :
  let e := Cell (-1) [] [] in
  let vs := [VmNull; VmInt 5; VmInt (- 2 ^ 63); VmInt (2 ^ 256 - 1); VmCellV e; VmSliceV [true; false] [e];
             VmBuilderV [true] []; VmTupleV [VmInt 1; VmTupleV []; VmTupleV [VmInt 2; VmInt 3; VmNull]];
             VmContV (CPushInt (-7) (CRepeat 3 (CQuit 5) CQuitExc))] in
  match ser_stack 10 vs with
  | Ok c => dec_stack 10 (begin_parse c) = Ok vs
  | Err _ => False
  end.
Proof. vm_compute. reflexivity. Qed.
