(* C17 - TVM stack values round-trip; the encoding follows the VmStack schema. *)
From Coq Require Import NArith ZArith List Bool.
From PTQ Require Import Base.Result Base.Bytes Base.Bits Model.Cell Model.Builder Model.VmStack
  Spec.TlbPrim Proofs.VmStackProofs.
Import ListNotations.
Local Open Scope Z_scope.

(* nesting depth of a value: tuples and continuations *)
(* (vm_depth / vm_depth_list are defined in Proofs/VmStackProofs.v) *)

(* serialising a stack of supported values and parsing it back returns equal values in the same order *)
Theorem C17_roundtrip : forall vs fuel c,
  (vm_depth_list vs < fuel)%nat ->
  ser_stack fuel vs = Ok c -> dec_stack fuel (begin_parse c) = Ok vs.
Proof. exact stack_roundtrip. Qed.
Print Assumptions C17_roundtrip.

(* a single value: what is written is what is read, and nothing else is consumed *)
Theorem C17_value : forall v fuel c tb tr,
  (vm_depth v < fuel)%nat -> ser_value fuel v = Ok c ->
  match c with Cell _ bits refs => dec_value fuel (mkS (bits ++ tb) (refs ++ tr)) = Ok (v, mkS tb tr) end.
Proof. exact value_roundtrip. Qed.
Print Assumptions C17_value.

(* integer form per the schema: vm_stk_tinyint#01 value:int64 exactly for -2^63 < z < 2^63,
   vm_stk_int#0201_ value:int257 otherwise (within the 257-bit range) *)
Theorem C17_int_form : forall z fuel c, ser_value (S fuel) (VmInt z) = Ok c ->
  (- 2 ^ 256 <= z < 2 ^ 256) /\
  match c with Cell _ bits refs =>
    refs = [] /\
    if (- 2 ^ 63 <? z) && (z <? 2 ^ 63) then bits = enc 8 1 ++ enc 64 z
    else bits = enc 15 256 ++ enc 257 z
  end.
Proof. exact int_form. Qed.
Print Assumptions C17_int_form.

(* stack list chaining: vm_stk_cons rest:^(VmStackList n) tos:VmStackValue; depth in 24 bits *)
Theorem C17_chain : forall fuel vs v c, ser_stack_list fuel (v :: vs) = Ok c ->
  exists cr cv, ser_stack_list fuel vs = Ok cr /\ ser_value fuel v = Ok cv /\
    match cv with Cell _ vb vr => c = Cell ty_ordinary vb (cr :: vr) end.
Proof. exact stack_list_chain. Qed.
Print Assumptions C17_chain.

Example C17_example :
  let e := Cell (-1) [] [] in
  let vs := [VmNull; VmInt 5; VmInt (- 2 ^ 63); VmInt (2 ^ 256 - 1); VmCellV e; VmSliceV [true; false] [e];
             VmBuilderV [true] []; VmTupleV [VmInt 1; VmTupleV []; VmTupleV [VmInt 2; VmInt 3; VmNull]];
             VmContV (CPushInt (-7) (CRepeat 3 (CQuit 5) CQuitExc))] in
  match ser_stack 10 vs with
  | Ok c => dec_stack 10 (begin_parse c) = Ok vs
  | Err _ => False
  end.
Proof. vm_compute. reflexivity. Qed.
