#!/bin/bash
# Build the whole Coq development (full .vo build), the extraction and the OCaml driver. Offline.
set -e
here="$(cd "$(dirname "$0")" && pwd)"
cd "$here/coq"
for f in GenCommitted/*.v; do
  b="$(basename "$f")"
  [ -f "Gen/$b" ] || cp "$f" "Gen/$b"
done
coq_makefile -f _CoqProject -o Makefile > /dev/null
timeout 3000 make -j"$(nproc)" 2>&1 | grep -v -E '^(COQC|COQDEP|Closed under)' || true
test -f Extract/Extract.vo
cd Extract
ocamlfind ocamlopt -O3 -w -a -package str model.mli model.ml driver_lib.ml driver.ml -o driver
sha256sum model.mli model.ml driver_lib.ml driver.ml > /dev/null
rm -f driver.stamp
# warm the Print Assumptions cache (one more coqc per Props file, in parallel) so that checks on an unchanged tree
# do not recompile their Props file
PYTHONPATH="${VERIF_REPO:-/repo}" /venv/bin/python "$here/tools/warm_assumptions.py" 2>&1 | grep -v conda || true
echo "setup ok"
